// RefParser — the specification model of nitro::options parsing, written from
// the statements of C01-C04, C11, C12 (DESIGN.md 3.1). No regex, no code shared
// with nitro. Plus the shared case structure of the options harnesses and the
// adapter that runs the real parser and snapshots its result.
#pragma once

#include "common/vcommon.hpp"

#include <nitro/options/parser.hpp>

#include <cstdlib>
#include <memory>

namespace om
{

enum Kind
{
    OPTION = 0,
    MULTI = 1,
    TOGGLE = 2
};

struct Entry
{
    int kind = OPTION;
    std::string name;
    std::string short_; // "" = none
    bool reversible = false;
    bool optional = false;
    bool has_default = false;
    std::string def;               // option default
    std::vector<std::string> mdef; // multi-option default
    int tdef = 0;                  // toggle default (count)
    bool tdef_bool = false;        // declared through default_value(bool)
    bool env_bound = false;
    int env_alias = -1; // >= 0: bound to the environment variable of that (earlier) entry
    int group = 0; // 0 default group, 1/2 named groups "g1"/"g2" (declared through parser.group(name))
    // expectation carried by round-trip cases (C02): intended assignment
    std::vector<std::string> want;
    int want_count = 0;

    template <class A>
    void io(A& a)
    {
        a("kind", kind);
        a("name", name);
        a("short", short_);
        a("rev", reversible);
        a("opt", optional);
        a("hasdef", has_default);
        a("def", def);
        a("mdef", mdef);
        a("tdef", tdef);
        a("tdefb", tdef_bool);
        a("env", env_bound);
        a("group", group);
        a("envalias", env_alias);
        a("want", want);
        a("wantn", want_count);
    }
};

struct Step
{
    std::vector<std::string> argv;   // without argv[0]
    std::vector<int> env_state;      // per entry: 0 unset, 1 set empty, 2 set to env_word
    std::vector<std::string> env_word;
    int neighbours = 0; // != 0: variables whose names merely start with (or end in) a bound name are set as well

    template <class A>
    void io(A& a)
    {
        a("argv", argv);
        a("envs", env_state);
        a("envw", env_word);
        a("neighbours", neighbours);
    }
};

struct Case
{
    std::string prop; // which oracle focus: c01, c02, ...
    std::vector<Entry> e;
    long long limit = 0; // accepted positionals; -1 = unlimited
    bool greedy = false;
    bool via_argv = true; // parse(argc, argv) or parse(vector<user_input>)
    std::vector<Step> steps;
    std::vector<std::string> want_pos; // C02
    std::vector<int> probe;            // C12: positional indices to probe
    int late = 0; // the last `late` entries are declared only after a first parse() on the object
    int moved = 0; // 1: the parser is move-constructed before parsing, 2: move-assigned onto a used parser
    bool argc0 = false; // parse(0, {NULL}): the empty argument vector without even a program name
    bool putenv_mode = false; // bound variables live in buffers owned by the harness (putenv) and are changed in
                              // place between calls, as POSIX allows
    int reconfig = 0;   // bit 0: greedy mode is first set to the opposite, bit 1: the accepted count is first
                        // set to something else - the last call of a setter decides

    template <class A>
    void io(A& a)
    {
        a("prop", prop);
        a("e", e);
        a("limit", limit);
        a("greedy", greedy);
        a("via_argv", via_argv);
        a("steps", steps);
        a("want_pos", want_pos);
        a("probe", probe);
        a("late", late);
        a("moved", moved);
        a("argc0", argc0);
        a("reconfig", reconfig);
        a("putenv", putenv_mode);
    }
};

inline std::string env_name(std::size_t i)
{
    return "NITRO_VERIF_Ev" + std::to_string(i); // (a lower-case letter: variable names are case-sensitive)
}

// two entries may be bound to the same variable: index of the entry that owns the variable
template <class C>
inline std::size_t env_owner(const C& c, std::size_t i)
{
    int a = c.e[i].env_alias;
    if (a >= 0 && static_cast<std::size_t>(a) < i && c.e[static_cast<std::size_t>(a)].env_bound)
        return static_cast<std::size_t>(a);
    return i;
}

inline std::string list_str(const std::vector<std::string>& v)
{
    std::string r = "[";
    for (std::size_t i = 0; i < v.size(); ++i)
        r += (i ? " " : "") + vf::vis(v[i], 60);
    return r + "]";
}

inline std::string describe_decl(const Case& c)
{
    std::ostringstream o;
    o << "decl{";
    for (std::size_t i = 0; i < c.e.size(); ++i)
    {
        const Entry& e = c.e[i];
        o << (i ? "; " : "") << (e.kind == OPTION ? "option " : e.kind == MULTI ? "multi " : "toggle ")
          << vf::vis(e.name);
        if (!e.short_.empty())
            o << " -" << vf::vis(e.short_);
        if (e.reversible)
            o << " reversible";
        if (e.optional)
            o << " optional";
        if (e.has_default)
        {
            if (e.kind == OPTION)
                o << " default=" << vf::vis(e.def);
            else if (e.kind == MULTI)
                o << " default=" << list_str(e.mdef);
            else
                o << " default=" << e.tdef;
        }
        if (e.env_bound)
            o << " env";
        if (e.env_bound && e.env_alias >= 0)
            o << "(shared with #" << e.env_alias << ")";
        if (e.group % 3)
            o << " group=g" << e.group % 3;
    }
    o << "} positionals=" << c.limit << (c.greedy ? " greedy" : "")
      << (c.reconfig & 1 ? " [greedy mode set to the opposite first]" : "")
      << (c.reconfig & 2 ? " [accepted count set to another value first]" : "");
    if (c.late)
        o << " [last " << c.late << " declared after a first parse]";
    if (c.moved)
        o << (c.moved == 1 ? " [parser move-constructed]" : " [parser move-assigned onto a used parser]");
    if (c.argc0)
        o << " [argc == 0]";
    return o.str();
}

inline std::string describe(const Case& c)
{
    std::ostringstream o;
    o << c.prop << " " << describe_decl(c);
    for (std::size_t s = 0; s < c.steps.size(); ++s)
    {
        o << " | argv=" << list_str(c.steps[s].argv);
        bool any = false;
        for (std::size_t i = 0; i < c.steps[s].env_state.size(); ++i)
            if (c.steps[s].env_state[i])
            {
                o << (any ? "," : " env{") << c.e[i].name << "="
                  << (c.steps[s].env_state[i] == 1 ? "\"\"" : vf::vis(c.steps[s].env_word[i], 40));
                any = true;
            }
        if (any)
            o << "}";
    }
    return o.str();
}

// ----------------------------------------------------------------------------
// outcome of one parse, model or real

struct Outcome
{
    // 0 returned, 1 user-input error (parsing_error), 2 developer error
    // (parser_error), 3 any other exception
    int cls = 0;
    std::string what; // exception text / model reason
    bool unspecified = false; // model only: statement silent, either result accepted
    std::map<std::string, std::pair<bool, std::string>> opt; // name -> (present, value)
    std::map<std::string, std::vector<std::string>> multi;
    std::map<std::string, int> tog;
    std::vector<std::string> pos;
    std::set<std::string> provided;
    // model only: classification of the token stream
    bool has_bundle = false, has_mixed_bundle = false, has_unknown = false, dd_seen = false;
    bool optlike_after_dd = false, greedy_swallowed_option = false;
    std::string reason; // model reject reason code
};

inline std::string outcome_str(const Outcome& o)
{
    static const char* cls[] = { "returned", "parsing_error", "parser_error", "other exception" };
    std::ostringstream s;
    s << cls[o.cls];
    if (o.cls != 0)
    {
        s << "(" << o.what << ")";
        return s.str();
    }
    s << " {";
    for (auto& kv : o.opt)
        s << " " << kv.first << "=" << (kv.second.first ? vf::vis(kv.second.second, 60) : "<absent>");
    for (auto& kv : o.multi)
        s << " " << kv.first << "=" << list_str(kv.second);
    for (auto& kv : o.tog)
        s << " " << kv.first << "#" << kv.second;
    s << " pos=" << list_str(o.pos) << " provided={";
    for (auto& p : o.provided)
        s << p << ",";
    s << "} }";
    return s.str();
}

// compares the result parts; "" if equal
inline std::string diff_results(const Outcome& real, const Outcome& model)
{
    if (real.opt != model.opt)
        return "option values differ";
    if (real.multi != model.multi)
        return "multi-option lists differ";
    if (real.tog != model.tog)
        return "toggle counts differ";
    if (real.pos != model.pos)
        return "positionals differ";
    if (real.provided != model.provided)
        return "provided flags differ";
    return "";
}

// ----------------------------------------------------------------------------
// the model

inline const std::set<std::string>& truthy_words()
{
    static const std::set<std::string> w = { "TRUE", "ON",  "YES",  "true", "on",   "yes", "1", "Y",
                                             "with", "True", "On",  "WITH", "With", "y",   "Yes" };
    return w;
}

inline const std::set<std::string>& falsy_words()
{
    static const std::set<std::string> w = { "false", "FALSE", "without", "0",     "NO",
                                             "no",    "Without", "n",     "off",   "OFF",
                                             "N",     "False", "Off",     "WITHOUT", "No" };
    return w;
}

inline bool is_value_token(const std::string& t)
{
    return t.empty() || t[0] != '-';
}

struct Token
{
    bool wellformed = false;
    bool is_long = false;
    std::string name; // long name, or the letters of a short token
    bool has_value = false;
    std::string value;
};

inline Token split_dash_token(const std::string& t)
{
    Token r;
    std::string head = t;
    auto eq = t.find('=');
    if (eq != std::string::npos)
    {
        head = t.substr(0, eq);
        r.has_value = true;
        r.value = t.substr(eq + 1);
    }
    // -x... or --x... with x not in {'-','='}; '=' cannot be in head by construction
    if (head.size() >= 2 && head[0] == '-' && head[1] != '-')
    {
        r.wellformed = true;
        r.is_long = false;
        r.name = head.substr(1);
    }
    else if (head.size() >= 3 && head[0] == '-' && head[1] == '-' && head[2] != '-')
    {
        r.wellformed = true;
        r.is_long = true;
        r.name = head.substr(2);
    }
    return r;
}

inline Outcome model_parse(const Case& c, const Step& st)
{
    Outcome out;
    const std::size_t n = c.e.size();
    std::vector<bool> given_cmd(n, false);
    std::vector<std::vector<std::string>> vals(n);
    std::vector<int> pos_occ(n, 0);
    std::vector<int> polarity(n, 0); // 0 none, +1 positive seen, -1 negative seen
    std::map<std::string, std::size_t> by_name, by_letter;
    for (std::size_t i = 0; i < n; ++i)
    {
        by_name[c.e[i].name] = i;
        if (!c.e[i].short_.empty())
            by_letter[c.e[i].short_] = i;
    }

    auto reject = [&](const std::string& reason, const std::string& what) {
        if (out.cls == 0)
        {
            out.cls = 1;
            out.reason = reason;
            out.what = what;
        }
    };

    bool only_pos = false;
    std::size_t accounted = 0;
    const auto& argv = st.argv;

    auto give_value = [&](std::size_t idx, const Token& tk, std::size_t& i) {
        // value-taking option idx spelled by token i
        std::string v;
        if (tk.has_value)
            v = tk.value;
        else if (i + 1 < argv.size() && is_value_token(argv[i + 1]))
        {
            v = argv[i + 1];
            ++i;
            ++accounted;
        }
        else
        {
            reject("value-missing", "value missing after " + c.e[idx].name);
            return;
        }
        if (c.e[idx].kind == OPTION && given_cmd[idx])
        {
            reject("twice", "single-valued option given twice: " + c.e[idx].name);
            return;
        }
        given_cmd[idx] = true;
        vals[idx].push_back(v);
    };

    auto positive = [&](std::size_t idx, int times) {
        if (polarity[idx] < 0)
        {
            reject("polarity", "both polarities for " + c.e[idx].name);
            return;
        }
        polarity[idx] = 1;
        pos_occ[idx] += times;
        given_cmd[idx] = true;
    };

    for (std::size_t i = 0; i < argv.size() && out.cls == 0; ++i)
    {
        const std::string& t = argv[i];
        ++accounted;
        if (only_pos || is_value_token(t))
        {
            if (only_pos && !is_value_token(t))
            {
                if (out.dd_seen)
                    out.optlike_after_dd = true;
                else
                    out.greedy_swallowed_option = true;
            }
            if (c.limit >= 0 && static_cast<long long>(out.pos.size()) == c.limit)
            {
                reject("too-many-positionals", "more positionals than accepted");
                break;
            }
            out.pos.push_back(t);
            if (c.greedy)
                only_pos = true;
            continue;
        }
        if (t == "--")
        {
            only_pos = true;
            out.dd_seen = true;
            continue;
        }
        Token tk = split_dash_token(t);
        if (!tk.wellformed)
        {
            reject("malformed", "malformed dash token");
            break;
        }
        if (tk.is_long)
        {
            auto it = by_name.find(tk.name);
            if (it != by_name.end())
            {
                std::size_t idx = it->second;
                if (c.e[idx].kind == TOGGLE)
                {
                    if (tk.has_value)
                        reject("toggle-value", "=value on a toggle");
                    else
                        positive(idx, 1);
                }
                else
                    give_value(idx, tk, i);
                continue;
            }
            if (tk.name.compare(0, 3, "no-") == 0)
            {
                auto it2 = by_name.find(tk.name.substr(3));
                if (it2 != by_name.end() && c.e[it2->second].kind == TOGGLE)
                {
                    std::size_t idx = it2->second;
                    if (tk.has_value)
                        reject("toggle-value", "=value on a toggle");
                    else if (!c.e[idx].reversible)
                        reject("not-reversible", "--no- on a toggle that is not reversible");
                    else if (polarity[idx] > 0)
                        reject("polarity", "both polarities for " + c.e[idx].name);
                    else
                    {
                        if (polarity[idx] < 0)
                            out.unspecified = true; // repeated --no-t: statement silent
                        polarity[idx] = -1;
                        given_cmd[idx] = true;
                    }
                    continue;
                }
            }
            out.has_unknown = true;
            reject("unknown-long", "unknown long name");
            break;
        }
        // short token
        if (tk.name.size() == 1)
        {
            auto it = by_letter.find(tk.name);
            if (it == by_letter.end())
            {
                out.has_unknown = true;
                reject("unknown-letter", "unknown letter");
                break;
            }
            std::size_t idx = it->second;
            if (c.e[idx].kind == TOGGLE)
            {
                if (tk.has_value)
                    reject("toggle-value", "=value on a toggle");
                else
                    positive(idx, 1);
            }
            else
                give_value(idx, tk, i);
            continue;
        }
        // bundle
        out.has_bundle = true;
        bool all_toggles = true;
        for (char ch : tk.name)
        {
            auto it = by_letter.find(std::string(1, ch));
            if (it == by_letter.end())
            {
                all_toggles = false;
                out.has_unknown = true;
                out.has_mixed_bundle = true;
                reject("bundle-unknown-letter", "undeclared letter in a bundle");
            }
            else if (c.e[it->second].kind != TOGGLE)
            {
                all_toggles = false;
                out.has_mixed_bundle = true;
                reject("bundle-option-letter", "value-taking option's letter in a bundle");
            }
        }
        if (!all_toggles)
            break;
        if (tk.has_value)
        {
            reject("toggle-value", "=value on a bundle");
            break;
        }
        for (char ch : tk.name)
        {
            std::size_t idx = by_letter[std::string(1, ch)];
            positive(idx, 1);
            if (out.cls)
                break;
        }
    }

    if (out.cls)
        return out;
    // token accounting (self-check of the model): every token was classified
    if (accounted != argv.size())
        throw std::logic_error("model: token accounting broken");

    for (std::size_t i = 0; i < n; ++i)
    {
        const Entry& e = c.e[i];
        const std::size_t ei = env_owner(c, i);
        int es = ei < st.env_state.size() ? st.env_state[ei] : 0;
        bool env_avail = e.env_bound && es == 2 && ei < st.env_word.size() && !st.env_word[ei].empty();
        const std::string& w = ei < st.env_word.size() ? st.env_word[ei] : e.name;
        if (e.kind == OPTION)
        {
            if (given_cmd[i])
            {
                out.opt[e.name] = { true, vals[i][0] };
                out.provided.insert(e.name);
            }
            else if (env_avail)
            {
                out.opt[e.name] = { true, w };
                out.provided.insert(e.name);
            }
            else if (e.has_default)
                out.opt[e.name] = { true, e.def };
            else if (!e.optional)
            {
                reject("required-missing", "required option without a source: " + e.name);
                return out;
            }
            else
                out.opt[e.name] = { false, "" };
        }
        else if (e.kind == MULTI)
        {
            if (given_cmd[i])
            {
                out.multi[e.name] = vals[i];
                out.provided.insert(e.name);
            }
            else if (env_avail)
            {
                std::vector<std::string> pieces;
                std::string cur;
                for (char ch : w)
                {
                    if (ch == ';')
                    {
                        pieces.push_back(cur);
                        cur.clear();
                    }
                    else
                        cur.push_back(ch);
                }
                if (w.back() == ';')
                    out.unspecified = true; // final empty element or not: statement silent
                else
                    pieces.push_back(cur);
                out.multi[e.name] = pieces;
                out.provided.insert(e.name);
            }
            else if (e.has_default)
                out.multi[e.name] = e.mdef;
            else if (!e.optional)
            {
                reject("required-missing", "required multi-option without a source: " + e.name);
                return out;
            }
            else
                out.multi[e.name] = {};
        }
        else
        {
            if (given_cmd[i])
            {
                out.tog[e.name] = polarity[i] < 0 ? 0 : pos_occ[i];
                out.provided.insert(e.name);
            }
            else if (env_avail)
            {
                if (truthy_words().count(w))
                    out.tog[e.name] = 1;
                else if (falsy_words().count(w))
                    out.tog[e.name] = 0;
                else
                {
                    reject("env-word", "environment word outside the vocabulary");
                    return out;
                }
                out.provided.insert(e.name);
            }
            else
                out.tog[e.name] = e.has_default ? e.tdef : 0;
        }
    }
    return out;
}

// ----------------------------------------------------------------------------
// the real parser

// declares the entries [from, to) on an existing parser
// references to the three groups, obtained once and kept (a caller may hold on to them)
struct HeldGroups
{
    nitro::options::group* g[3] = { nullptr, nullptr, nullptr };
    void fetch(nitro::options::parser* p)
    {
        g[0] = &p->group();
        g[1] = &p->group("g1", "named group");
        g[2] = &p->group("g2", "named group");
    }
};

inline void declare_entries(nitro::options::parser* p, const Case& c, std::size_t from, std::size_t to,
                            const HeldGroups* held = nullptr)
{
    for (std::size_t i = from; i < to && i < c.e.size(); ++i)
    {
        const Entry& e = c.e[i];
        // entries live in the default group (declared through the parser or through group())
        // or in one of two named groups; parsing must not care. With `held`, everything is
        // declared through group references that were obtained earlier.
        nitro::options::group& grp =
            held ? *held->g[e.group % 3]
                 : (e.group % 3 == 0 ? p->group() : p->group(e.group % 3 == 1 ? "g1" : "g2", "named group"));
        if (e.kind == OPTION)
        {
            auto& o = (!held && e.group % 3 == 0 && i % 2 == 0) ? p->option(e.name, "d") : grp.option(e.name, "d");
            if (!e.short_.empty())
                o.short_name(e.short_);
            if (e.optional)
                o.optional();
            if (e.has_default)
                o.default_value(e.def);
            if (e.env_bound)
                o.env(env_name(env_owner(c, i)));
        }
        else if (e.kind == MULTI)
        {
            auto& o = (!held && e.group % 3 == 0 && i % 2 == 0) ? p->multi_option(e.name, "d") : grp.multi_option(e.name, "d");
            if (!e.short_.empty())
                o.short_name(e.short_);
            if (e.optional)
                o.optional();
            if (e.has_default)
                o.default_value(e.mdef);
            if (e.env_bound)
                o.env(env_name(env_owner(c, i)));
        }
        else
        {
            auto& o = (!held && e.group % 3 == 0 && i % 2 == 0) ? p->toggle(e.name, "d") : grp.toggle(e.name, "d");
            if (!e.short_.empty())
                o.short_name(e.short_);
            if (e.reversible)
                o.allow_reverse();
            if (e.has_default)
            {
                if (e.tdef_bool)
                    o.default_value(e.tdef != 0);
                else
                    o.default_value(e.tdef);
            }
            if (e.env_bound)
                o.env(env_name(env_owner(c, i)));
        }
    }
}

// builds a parser with the first `upto` entries declared (all by default)
inline std::unique_ptr<nitro::options::parser> build_parser(const Case& c,
                                                            std::size_t upto = static_cast<std::size_t>(-1))
{
    auto p = std::make_unique<nitro::options::parser>("prog", "about");
    declare_entries(p.get(), c, 0, std::min(upto, c.e.size()));
    if (c.reconfig & 1)
        p->greedy_postionals(!c.greedy);
    if (c.reconfig & 2)
    {
        if (c.limit < 0)
            p->accept_positionals(3);
        else
            p->accept_positionals();
    }
    if (c.limit < 0)
        p->accept_positionals();
    else if (c.limit > 0 || (c.reconfig & 2))
        p->accept_positionals(static_cast<std::size_t>(c.limit));
    if (c.greedy)
        p->greedy_postionals();
    else if (c.reconfig & 1)
        p->greedy_postionals(false);
    return p;
}

// buffers for putenv mode: "NAME=value", handed to putenv() once and rewritten in place afterwards
struct PutenvBuffers
{
    static const std::size_t SIZE = 9000;
    char buf[16][SIZE];
    bool registered[16] = {};
};
inline PutenvBuffers& putenv_buffers()
{
    static PutenvBuffers* b = new PutenvBuffers;
    return *b;
}

inline void apply_env(const Case& c, const Step& st)
{
    for (std::size_t i = 0; i < c.e.size(); ++i)
    {

        if (env_owner(c, i) != i)
            continue; // shares the variable of an earlier entry
        std::string n = env_name(i);
        int es = i < st.env_state.size() ? st.env_state[i] : 0;
        // unrelated variables next to the bound one (set first, so that they come first in environ):
        // NAME_MAX, NAME0 and XNAME are not NAME
        ::unsetenv((n + "_MAX").c_str());
        ::unsetenv((n + "0").c_str());
        ::unsetenv(("X" + n).c_str());
        if (st.neighbours)
        {
            ::unsetenv(n.c_str());
            if (i < 16)
                putenv_buffers().registered[i] = false;
            ::setenv((n + "_MAX").c_str(), "9", 1);
            ::setenv((n + "0").c_str(), "true", 1);
            ::setenv(("X" + n).c_str(), "neighbour", 1);
        }
        std::string word = es == 1 ? std::string() : (es == 2 ? st.env_word[i] : std::string());
        if (c.putenv_mode && i < 16 && es != 0 && n.size() + word.size() + 2 < PutenvBuffers::SIZE &&
            word.find('\0') == std::string::npos)
        {
            PutenvBuffers& pb = putenv_buffers();
            std::string entry = n + "=" + word;
            std::memcpy(pb.buf[i], entry.c_str(), entry.size() + 1); // in place if already part of environ
            if (!pb.registered[i])
            {
                ::putenv(pb.buf[i]);
                pb.registered[i] = true;
            }
            continue;
        }
        if (i < 16 && putenv_buffers().registered[i])
        {
            ::unsetenv(n.c_str());
            putenv_buffers().registered[i] = false;
        }
        if (es == 0)
            ::unsetenv(n.c_str());
        else if (es == 1)
            ::setenv(n.c_str(), "", 1);
        else
            ::setenv(n.c_str(), st.env_word[i].c_str(), 1);
    }
}

inline void clear_env()
{
    for (std::size_t i = 0; i < 16; ++i)
    {
        std::string n = env_name(i);
        ::unsetenv(n.c_str());
        putenv_buffers().registered[i] = false;
        ::unsetenv((n + "_MAX").c_str());
        ::unsetenv((n + "0").c_str());
        ::unsetenv(("X" + n).c_str());
    }
}

// positional index probes (C12) taken while the arguments object is alive
struct Probe
{
    int index;
    bool raised;
    std::string value;
    bool raised_br;
    std::string value_br;
};

// the result of the previous parse() on the same object, kept alive by the caller: a C-style
// caller may pass value strings of that result as arguments of the next call
struct PrevResult
{
    bool has = false;
    nitro::options::arguments args;
    std::vector<nitro::options::arguments> all; // every earlier result, with its positionals at that time
    std::vector<std::vector<std::string>> all_pos;
};

inline Outcome real_parse(nitro::options::parser& p, const Case& c, const Step& st,
                          std::vector<Probe>* probes = nullptr, PrevResult* prev = nullptr)
{
    Outcome out;
    apply_env(c, st);
    try
    {
        nitro::options::arguments args;
        if (c.argc0 && st.argv.empty())
        {
            const char* none[] = { nullptr };
            args = p.parse(0, none);
        }
        else if (c.via_argv)
        {
            std::vector<const char*> av;
            av.push_back("prog");
            for (auto& s : st.argv)
            {
                const char* ptr = s.c_str();
                // a value token that equals a value of the previous result is passed as a pointer
                // into that result's own string
                if (prev && prev->has && is_value_token(s))
                    for (auto& e : c.e)
                        if (e.kind == OPTION)
                        {
                            try
                            {
                                const std::string& old = prev->args.get(e.name);
                                if (old == s)
                                    ptr = old.c_str();
                            }
                            catch (const std::exception&)
                            {
                            }
                        }
                av.push_back(ptr);
            }
            args = p.parse(static_cast<int>(av.size()), av.data());
        }
        else
        {
            std::vector<nitro::options::user_input> in;
            for (auto& s : st.argv)
                in.emplace_back(s);
            args = p.parse(in);
        }
        for (auto& e : c.e)
        {
            if (e.kind == OPTION)
            {
                try
                {
                    out.opt[e.name] = { true, args.get(e.name) };
                }
                catch (const nitro::except::exception&)
                {
                    out.opt[e.name] = { false, "" };
                }
            }
            else if (e.kind == MULTI)
            {
                out.multi[e.name] = args.get_all(e.name);
                if (args.count(e.name) != out.multi[e.name].size())
                    out.what += "count() != get_all().size(); ";
                for (std::size_t k = 0; k < out.multi[e.name].size(); ++k)
                    if (args.get(e.name, k) != out.multi[e.name][k])
                        out.what += "get(name,i) != get_all()[i]; ";
            }
            else
                out.tog[e.name] = args.given(e.name);
            if (args.provided(e.name))
                out.provided.insert(e.name);
        }
        out.pos = args.positionals();
        if (prev)
        {
            prev->has = true;
            prev->args = args;
            prev->all.push_back(args);
            prev->all_pos.push_back(out.pos);
        }
        if (probes)
        {
            for (auto& pr : *probes)
            {
                try
                {
                    pr.value = args.get(pr.index);
                    pr.raised = false;
                }
                catch (const std::exception&)
                {
                    pr.raised = true;
                }
                try
                {
                    pr.value_br = args[pr.index];
                    pr.raised_br = false;
                }
                catch (const std::exception&)
                {
                    pr.raised_br = true;
                }
            }
        }
    }
    catch (const nitro::options::parsing_error& e)
    {
        out.cls = 1;
        out.what = e.what();
    }
    catch (const nitro::options::parser_error& e)
    {
        out.cls = 2;
        out.what = e.what();
    }
    catch (const std::exception& e)
    {
        out.cls = 3;
        out.what = e.what();
    }
    catch (...)
    {
        out.cls = 3;
        out.what = "non-std exception";
    }
    return out;
}

// full differential of one step against the model; "" if they agree
inline std::string compare(const Outcome& real, const Outcome& model)
{
    if (real.cls >= 2)
        return "parse let " + outcome_str(real) + " escape (only the user-input error is allowed)";
    if (model.cls == 0 && model.unspecified)
        return "";
    if (model.cls == 1 && real.cls == 0)
        return "parse returned although the model rejects [" + model.reason + ": " + model.what +
               "]; real: " + outcome_str(real);
    if (model.cls == 0 && real.cls == 1)
        return "parse raised " + outcome_str(real) + " although the model accepts: " +
               outcome_str(model);
    if (model.cls == 0)
    {
        if (!real.what.empty())
            return "inconsistent accessors: " + real.what;
        std::string d = diff_results(real, model);
        if (!d.empty())
            return d + ": real " + outcome_str(real) + " model " + outcome_str(model);
    }
    return "";
}

} // namespace om
