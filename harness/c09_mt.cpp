// C09 — the thread-safe stdout/stderr sinks emit each concurrent record once
// and contiguously. Generated multi-thread workloads log through one logger
// whose sink is stdout_mt / StdErrThreaded; the stream's buffer is replaced by
// a deliberately racy one that (a) detects concurrent entry, (b) holds every
// record's critical section open until a competing thread is provably inside a
// log statement (schedule perturbation owned by the harness). Oracle: history
// invariant over the captured bytes. The same workloads run in a second binary
// built with -fsanitize=thread.
#include "common/vcommon.hpp"

#include <nitro/log/attribute/message.hpp>
#include <nitro/log/attribute/severity.hpp>
#include <nitro/log/attribute/timestamp.hpp>
#include <nitro/log/filter/null_filter.hpp>
#include <nitro/log/log.hpp>
#include <nitro/log/sink/stderr_mt.hpp>
#include <nitro/log/sink/stdout_mt.hpp>

#include <atomic>
#include <sched.h>
#include <time.h>
#include <sys/wait.h>
#include <thread>
#include <unistd.h>

namespace h
{
struct Case
{
    int sink = 0; // 0 stdout_mt, 1 StdErrThreaded
    int threads = 2;
    int per_thread = 20;
    int len_seed = 1;
    int max_len = 100;
    int yields = 0;      // extra yields inside the critical section after a competitor showed up
    int start_skew = 0;  // per-thread start delay in yields
    int newlines = 0;    // 1: record bodies contain embedded line breaks
    int stall_ms = 0;    // > 0: every 40th write stalls that long inside the critical section
    int nest = 0;        // 1: every 5th statement has an operand that itself logs a complete record
    int first = 0;       // 1: the threads are released by a busy-wait barrier (first-ever use of the sink)
    int main_logs = 0;   // 1: thread 0 is the main thread of the process, not a spawned one
    int unwind = 0;      // 1: every 7th statement is issued from a destructor during stack unwinding
    int forks = 0;       // > 0: one more thread forks that many times while the others log (not under TSan)
    template <class A>
    void io(A& a)
    {
        a("sink", sink);
        a("threads", threads);
        a("per_thread", per_thread);
        a("len_seed", len_seed);
        a("max_len", max_len);
        a("yields", yields);
        a("start_skew", start_skew);
        a("newlines", newlines);
        a("stall_ms", stall_ms);
        a("nest", nest);
        a("first", first);
        a("main_logs", main_logs);
        a("unwind", unwind);
        a("forks", forks);
    }
};

const char* property_ids()
{
    return "C09";
}

std::string describe(const Case& c)
{
    std::ostringstream o;
    o << (c.sink ? "StdErrThreaded" : "stdout_mt") << ": " << c.threads << " threads x " << c.per_thread
      << " records, lengths 1.." << c.max_len << " (seed " << c.len_seed << "), " << c.yields
      << " yields inside the critical section, start skew " << c.start_skew
      << (c.newlines ? ", multi-line records" : "") << (c.stall_ms ? ", stalls of " + std::to_string(c.stall_ms) + " ms" : "")
      << (c.nest ? ", every 5th statement has an operand that logs" : "") << (c.first ? ", busy-wait start barrier" : "")
      << (c.main_logs ? ", thread 0 is the main thread" : "") << (c.unwind ? ", every 7th statement during stack unwinding" : "")
      << (c.forks ? ", another thread forks " + std::to_string(c.forks) + " times meanwhile" : "");
    return o.str();
}

Case generate(vf::Src& src, const std::string& mode)
{
    Case c;
    c.sink = src.irange(0, 1);
    if (mode == "first")
    {
        // the very first records of a process: all threads arrive at the sink at the same moment
        c.threads = 8;
        c.per_thread = 3;
        c.len_seed = src.irange(1, 1000000);
        c.max_len = 100;
        c.first = 1;
        c.main_logs = src.coin(60) ? 1 : 0;
        return c;
    }
    c.threads = src.irange(2, 8);
    c.per_thread = src.irange(20, 300);
    c.len_seed = src.irange(1, 1000000);
    c.max_len = std::vector<int>{ 8, 100, 1000, 4000 }[src.index(4)];
    c.yields = src.irange(0, 20);
    c.start_skew = src.irange(0, 50);
    c.newlines = src.coin(35) ? 1 : 0;
    c.nest = src.coin(30) ? 1 : 0;
    c.main_logs = src.coin(30) ? 1 : 0;
    c.unwind = src.coin(25) ? 1 : 0;
    c.forks = src.coin(15) ? src.irange(2, 6) : 0;
    // a stream that stalls now and then (a blocked pipe, a slow terminal): waiters queue up for long
    if (src.coin(12))
    {
        c.stall_ms = src.irange(120, 220);
        c.per_thread = std::min(c.per_thread, 60);
    }
    return c;
}

// ---------------------------------------------------------------- the racy buffer

static std::atomic<int> attempting{ 0 }; // threads currently inside a log statement

struct RacyBuf : std::streambuf
{
    std::string data; // deliberately unsynchronised
    std::atomic<int> inside{ 0 };
    std::atomic<long> overlaps{ 0 }, contended{ 0 }, writes{ 0 }, stalls{ 0 };
    int yields = 0;
    int stall_ms = 0;

    void enter()
    {
        if (inside.fetch_add(1, std::memory_order_acq_rel) != 0)
            overlaps.fetch_add(1);
    }
    void leave()
    {
        inside.fetch_sub(1, std::memory_order_acq_rel);
    }
    std::streamsize xsputn(const char* s, std::streamsize n) override
    {
        enter();
        std::size_t half = static_cast<std::size_t>(n) / 2;
        data.append(s, half);
        // hold the critical section open until a competitor is inside a log statement too
        bool seen = false;
        for (int spin = 0; spin < 3000; ++spin)
        {
            if (attempting.load(std::memory_order_acquire) >= 2)
            {
                seen = true;
                break;
            }
            sched_yield();
        }
        if (seen)
        {
            contended.fetch_add(1);
            for (int i = 0; i < yields; ++i)
                sched_yield();
        }
        long w = writes.fetch_add(1);
        if (stall_ms > 0 && w % 40 == 7 && stalls.fetch_add(1) < 3)
        {
            struct timespec ts = { 0, static_cast<long>(stall_ms) * 1000000L };
            nanosleep(&ts, nullptr);
        }
        data.append(s + half, static_cast<std::size_t>(n) - half);
        leave();
        return n;
    }
    int_type overflow(int_type ch) override
    {
        enter();
        if (ch != traits_type::eof())
            data.push_back(static_cast<char>(ch));
        leave();
        return ch;
    }
    int sync() override
    {
        enter();
        leave();
        return 0;
    }
};

// ---------------------------------------------------------------- loggers

using Record = nitro::log::record<nitro::log::message_attribute, nitro::log::severity_attribute,
                                  nitro::log::timestamp_attribute>;
template <typename R>
struct Fmt
{
    std::string format(R& r)
    {
        return r.message() + "\n";
    }
};
template <typename R>
using Filter = nitro::log::filter::null_filter<R>;
using LogOut = nitro::log::logger<Record, Fmt, nitro::log::sink::stdout_mt, Filter>;
using LogErr = nitro::log::logger<Record, Fmt, nitro::log::sink::StdErrThreaded, Filter>;

// byte i of the body of a record: the thread's fill byte, with line breaks sprinkled in
static char body_byte(const Case& c, char fill, int i)
{
    return c.newlines && i % 17 == 5 ? '\n' : fill;
}

static int length_of(const Case& c, int tid, int seq)
{
    std::uint64_t x = static_cast<std::uint64_t>(c.len_seed) * 1000003u + static_cast<std::uint64_t>(tid) * 7919u +
                      static_cast<std::uint64_t>(seq) * 104729u;
    x ^= x >> 13;
    x *= 0x9E3779B97F4A7C15ull;
    x ^= x >> 29;
    return 1 + static_cast<int>(x % static_cast<std::uint64_t>(c.max_len));
}

std::string check(const Case& c0, vf::Ctx& ctx)
{
    // a deadlock shows as no progress at all: blocked threads use no CPU time
    vf::arm_wall_watchdog(75);
    Case c = c0;
    c.threads = std::max(2, std::min(c.threads, 8));
    c.per_thread = std::max(1, std::min(c.per_thread, 300));
    c.max_len = std::max(1, std::min(c.max_len, 4000));
    RacyBuf buf;
    buf.yields = std::max(0, std::min(c.yields, 50));
    buf.stall_ms = std::max(0, std::min(c.stall_ms, 400));
    std::ostream& target = c.sink ? std::cerr : std::cout;
    std::streambuf* old = target.rdbuf(&buf);
    attempting = 0;
    std::atomic<int> go{ 0 }, ready{ 0 }, inner_total{ 0 };
    std::vector<std::thread> th;
    auto worker = [&](int t) {
            ready.fetch_add(1);
            if (c.first)
                while (!go.load(std::memory_order_acquire))
                {
                }
            else
                while (!go.load())
                    sched_yield();
            for (int i = 0; i < (c.start_skew * t) % 97; ++i)
                sched_yield();
            char fill = static_cast<char>('a' + t);
            int inner_seq = 0;
            // an operand that reports something itself: a complete record of the "virtual thread"
            // t + 8, issued while the outer statement is still collecting its items
            auto inner_record = [&]() -> std::string {
                int vt = t + 8;
                int len = length_of(c, vt, inner_seq);
                char ifill = static_cast<char>('A' + t);
                std::string body(static_cast<std::size_t>(len), ifill);
                for (int i = 0; i < len; ++i)
                    body[static_cast<std::size_t>(i)] = body_byte(c, ifill, i);
                if (c.sink)
                    LogErr::warn() << "[t" << vt << "#" << inner_seq << "|" << len << "|" << body << "]";
                else
                    LogOut::warn() << "[t" << vt << "#" << inner_seq << "|" << len << "|" << body << "]";
                ++inner_seq;
                return "";
            };
            for (int s = 0; s < c.per_thread; ++s)
            {
                int len = length_of(c, t, s);
                std::string body(static_cast<std::size_t>(len), fill);
                for (int i = 0; i < len; ++i)
                    body[static_cast<std::size_t>(i)] = body_byte(c, fill, i);
                attempting.fetch_add(1, std::memory_order_acq_rel);
                if (c.nest && s % 5 == 3)
                {
                    // once as a lazily evaluated callable, once as a plain function call operand
                    if (c.sink)
                    {
                        if (s % 2)
                            LogErr::info() << "[t" << t << "#" << s << "|" << inner_record << len << "|" << body << "]";
                        else
                            LogErr::info() << "[t" << t << "#" << s << "|" << len << inner_record() << "|" << body << "]";
                    }
                    else
                    {
                        if (s % 2)
                            LogOut::info() << "[t" << t << "#" << s << "|" << inner_record << len << "|" << body << "]";
                        else
                            LogOut::info() << "[t" << t << "#" << s << "|" << len << inner_record() << "|" << body << "]";
                    }
                }
                else if (c.unwind && s % 7 == 4)
                {
                    // the statement is issued by a scope guard while an exception leaves the scope
                    struct Guard
                    {
                        const Case& c;
                        int t, s, len;
                        const std::string& body;
                        ~Guard()
                        {
                            if (c.sink)
                                LogErr::info() << "[t" << t << "#" << s << "|" << len << "|" << body << "]";
                            else
                                LogOut::info() << "[t" << t << "#" << s << "|" << len << "|" << body << "]";
                        }
                    };
                    try
                    {
                        Guard g{ c, t, s, len, body };
                        throw 1;
                    }
                    catch (int)
                    {
                    }
                }
                else if (c.sink)
                    LogErr::info() << "[t" << t << "#" << s << "|" << len << "|" << body << "]";
                else
                    LogOut::info() << "[t" << t << "#" << s << "|" << len << "|" << body << "]";
                attempting.fetch_sub(1, std::memory_order_acq_rel);
            }
            inner_total.fetch_add(inner_seq);
        };
    std::atomic<int> logging_done{ 0 };
    for (int t = c.main_logs ? 1 : 0; t < c.threads; ++t)
        th.emplace_back([&, t] { worker(t); });
#if !defined(__SANITIZE_THREAD__)
    if (c.forks > 0)
        th.emplace_back([&] {
            // a thread that starts child processes while the others are logging
            while (!go.load())
                sched_yield();
            for (int k = 0; k < c.forks && !logging_done.load(); ++k)
            {
                for (int i = 0; i < 200; ++i)
                    sched_yield();
                pid_t pid = ::fork();
                if (pid == 0)
                    ::_exit(0);
                if (pid > 0)
                {
                    int st = 0;
                    ::waitpid(pid, &st, 0);
                }
            }
        });
#endif
    if (c.first)
        while (ready.load() < c.threads - (c.main_logs ? 1 : 0))
            sched_yield();
    go.store(1, std::memory_order_release);
    if (c.main_logs)
        worker(0);
    logging_done = 1;
    for (auto& t : th)
        t.join();
    target.rdbuf(old);

    const long total = static_cast<long>(c.threads) * c.per_thread + inner_total.load();
    long contended = buf.contended.load();
    ctx.add("records", static_cast<std::uint64_t>(total));
    ctx.add("records:contended", static_cast<std::uint64_t>(contended));
    ctx.tag(c.sink ? "sink:stderr_mt" : "sink:stdout_mt");
    if (c.newlines)
        ctx.tag("records:multi-line");
    if (c.stall_ms)
        ctx.tag("stream:stalls");
    if (c.nest)
        ctx.tag("statements:operand-logs-itself");
    if (c.first)
        ctx.tag("start:busy-wait-barrier");
    if (c.main_logs)
        ctx.tag("threads:main-thread-logs");
    if (c.unwind)
        ctx.tag("statements:during-stack-unwinding");
    if (c.forks)
        ctx.tag("process:forks-while-logging");
    if (contended > 0)
        ctx.mark_nontrivial();

    if (buf.overlaps.load() != 0)
        return std::to_string(buf.overlaps.load()) +
               " concurrent entries into the stream buffer: two records were being written at the same "
               "time (" + describe(c) + ")";
    // parse the captured bytes as a sequence of whole records
    const std::string& d = buf.data;
    std::vector<int> next(16, 0);
    std::size_t pos = 0;
    long seen = 0;
    while (pos < d.size())
    {
        int t = -1, s = -1, len = -1, consumed = 0;
        if (std::sscanf(d.c_str() + pos, "[t%d#%d|%d|%n", &t, &s, &len, &consumed) != 3 || t < 0 ||
            (t >= c.threads && t < 8) || t >= 8 + c.threads || len < 1 || len > c.max_len)
            return "output does not parse as whole records at byte " + std::to_string(pos) + ": " +
                   vf::vis(d.substr(pos, 60)) + " (" + describe(c) + ")";
        pos += static_cast<std::size_t>(consumed);
        char fill = t >= 8 ? static_cast<char>('A' + t - 8) : static_cast<char>('a' + t);
        if (pos + static_cast<std::size_t>(len) + 2 > d.size())
            return "output ends inside a record (" + describe(c) + ")";
        for (int i = 0; i < len; ++i)
            if (d[pos + static_cast<std::size_t>(i)] != body_byte(c, fill, i))
                return "bytes of two records interleave at byte " + std::to_string(pos + static_cast<std::size_t>(i)) +
                       ": " + vf::vis(d.substr(pos + static_cast<std::size_t>(i) > 20 ? pos + static_cast<std::size_t>(i) - 20 : 0, 60)) +
                       " (" + describe(c) + ")";
        pos += static_cast<std::size_t>(len);
        if (d[pos] != ']' || d[pos + 1] != '\n')
            return "record is not terminated contiguously at byte " + std::to_string(pos) + " (" +
                   describe(c) + ")";
        pos += 2;
        if (len != length_of(c, t, s))
            return "record t" + std::to_string(t) + "#" + std::to_string(s) + " has a wrong length (" +
                   describe(c) + ")";
        if (s != next[static_cast<std::size_t>(t)])
            return "thread " + std::to_string(t) + ": record #" + std::to_string(s) + " appears where #" +
                   std::to_string(next[static_cast<std::size_t>(t)]) +
                   " is due (lost, duplicated or out of program order) (" + describe(c) + ")";
        next[static_cast<std::size_t>(t)]++;
        ++seen;
    }
    if (seen != total)
        return std::to_string(seen) + " records in the output, " + std::to_string(total) + " were issued (" +
               describe(c) + ")";
    return "";
}
} // namespace h

#include "common/vmain.hpp"
