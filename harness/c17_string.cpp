// C17 — split, join, replace_all and starts_with obey their string laws.
// Oracles: naive reference implementations written from the property statement
// (left-to-right scanner), the split/join round trip, CPU watchdog for
// "returns for every input".
#include "common/vcommon.hpp"

#include <iterator>

#include <nitro/lang/string.hpp>
// terminal.hpp relies on string.hpp being included first
#include <nitro/io/terminal.hpp>

namespace h
{
enum Fn
{
    SPLIT = 0,
    REPLACE = 1,
    STARTS = 2,
    JOIN = 3,
    JOIN_INT = 4,
    PADDED = 5,
    JOIN_ROWS = 6, // elements whose own operator<< joins their cells
    JOIN_STREAM = 7, // elements read from single-pass iterators (istream_iterator, istreambuf_iterator)
    FN_COUNT = 8
};

// a row prints itself by joining its cells: two join calls are alive at the same time
struct Row
{
    std::vector<std::string> cells;
};
static std::ostream& operator<<(std::ostream& o, const Row& r)
{
    return o << nitro::lang::join(r.cells, ",");
}
// the cells of a row are spelled "cell|cell|cell" in the case
static Row row_of(const std::string& text)
{
    Row r;
    std::string cur;
    for (char ch : text)
    {
        if (ch == '|')
        {
            r.cells.push_back(cur);
            cur.clear();
        }
        else
            cur += ch;
    }
    r.cells.push_back(cur);
    return r;
}

struct Case
{
    int fn = 0;
    std::string s, t, u;
    std::vector<std::string> list;
    std::vector<int> ints;
    int pad = 0, width = 80;

    template <class A>
    void io(A& a)
    {
        a("fn", fn);
        a("s", s);
        a("t", t);
        a("u", u);
        a("list", list);
        a("ints", ints);
        a("pad", pad);
        a("width", width);
    }
};

const char* property_ids()
{
    return "C17";
}

static const char* fn_name(int fn)
{
    static const char* n[] = { "split", "replace_all", "starts_with", "join", "join<int>",
                               "format_padded", "join<row>", "join<single-pass iterator>" };
    return n[fn];
}

std::string describe(const Case& c)
{
    std::ostringstream o;
    o << fn_name(c.fn) << "(";
    switch (c.fn)
    {
    case SPLIT:
    case STARTS:
        o << vf::vis(c.s) << ", " << vf::vis(c.t);
        break;
    case REPLACE:
        o << vf::vis(c.s) << ", " << vf::vis(c.t) << ", " << vf::vis(c.u);
        break;
    case JOIN:
    case JOIN_ROWS:
    case JOIN_STREAM:
        o << "[";
        for (std::size_t i = 0; i < c.list.size(); ++i)
            o << (i ? ", " : "") << vf::vis(c.list[i]);
        o << "], " << vf::vis(c.t);
        break;
    case JOIN_INT:
        o << "[";
        for (std::size_t i = 0; i < c.ints.size(); ++i)
            o << (i ? ", " : "") << c.ints[i];
        o << "], " << vf::vis(c.t);
        break;
    case PADDED:
        o << vf::vis(c.s) << ", pad=" << c.pad << ", width=" << c.width;
        break;
    }
    o << ")";
    return o.str();
}

// ---------------------------------------------------------------- generators

static std::string gen_string(vf::Src& src, const std::string& mode, int maxlen)
{
    if (mode == "rc" || mode == "fuzz")
    {
        // random: richer alphabet, occasionally long
        static const std::vector<std::string> chunks = { "a",  "b",      "#",  " ",    "ab",
                                                         "ba", "\xc3\xa4", "##", "a b ", "\t",
                                                         ",",  ", ",     "{}", "\n",   std::string(1, '\0'),
                                                         "$",  "$&",     "$$", "$1",   "\\",
                                                         ".",  "*",      "(",  "$`",   "$'",
                                                         "\xff", "[",    "a",  "b",    "#" };
        int n = src.coin(10) ? src.irange(0, 40) : src.irange(0, maxlen);
        std::string r;
        for (int i = 0; i < n; ++i)
            r += src.pick(chunks);
        return r;
    }
    return src.str("ab", 0, maxlen);
}

Case generate(vf::Src& src, const std::string& mode)
{
    Case c;
    if (mode == "rc" || mode == "fuzz")
    {
        c.fn = static_cast<int>(src.weighted({ 25, 30, 12, 20, 3, 7, 6, 4 }));
        switch (c.fn)
        {
        case SPLIT:
            c.s = gen_string(src, mode, 12);
            if (src.coin(4))
            {
                // a long separator (lengths around 256) in a long text that also holds other letters
                static const int lens[] = { 255, 256, 257, 300 };
                int n = lens[src.index(4)];
                c.t.clear();
                for (int i = 0; i < n; ++i)
                    c.t.push_back("ab#"[static_cast<std::size_t>((i * 7 + i / 5) % 3)]);
                int pieces = src.irange(1, 3);
                c.s.clear();
                for (int k = 0; k < pieces; ++k)
                    c.s += std::string(static_cast<std::size_t>(src.irange(0, 300)), "xyz"[src.index(3)]) + (src.coin(70) ? c.t : c.t.substr(0, 200));
                c.s += std::string(static_cast<std::size_t>(src.irange(0, 300)), 'q');
                break;
            }
            // needle: mostly short and likely to occur; sometimes a substring of s
            if (!c.s.empty() && src.coin(40))
            {
                auto b = src.index(c.s.size());
                auto l = 1 + src.index(std::min<std::size_t>(3, c.s.size() - b));
                c.t = c.s.substr(b, l);
            }
            else
                c.t = gen_string(src, mode, 3);
            break;
        case REPLACE:
            c.s = gen_string(src, mode, 12);
            if (src.coin(3))
            {
                // a text of some thousand characters over a tiny alphabet, a short pattern with more than a
                // thousand occurrences, and a longer replacement that contains the pattern again
                static const std::vector<std::string> pats = { "a", "\"", "'", "ab", "aa" };
                c.t = src.pick(pats);
                int n = std::vector<int>{ 1000, 1024, 1025, 1500, 2049, 3000 }[src.index(6)];
                c.s.clear();
                for (int i = 0; i < n; ++i)
                    c.s += (src.coin(80) ? c.t : std::string(1, "bc "[src.index(3)]));
                c.u = src.coin(50) ? c.t + c.t : (src.coin(50) ? c.t + "\\" + c.t + c.t : "x" + c.t);
                break;
            }
            if (!c.s.empty() && src.coin(40))
            {
                auto b = src.index(c.s.size());
                auto l = 1 + src.index(std::min<std::size_t>(3, c.s.size() - b));
                c.t = c.s.substr(b, l);
            }
            else
                c.t = gen_string(src, mode, 3);
            // replacement: often contains the pattern (must not be rescanned)
            switch (src.weighted({ 3, 3, 2, 2 }))
            {
            case 0:
                c.u = gen_string(src, mode, 3);
                break;
            case 1:
                c.u = c.t + gen_string(src, mode, 2);
                break;
            case 2:
                c.u = gen_string(src, mode, 2) + c.t + c.t;
                break;
            default:
                c.u = "";
            }
            break;
        case STARTS:
            c.s = gen_string(src, mode, 8);
            if (src.coin(50))
                c.t = c.s.substr(0, src.index(c.s.size() + 1));
            else if (!c.s.empty() && src.coin(50))
                c.t = c.s.substr(src.index(c.s.size())); // a suffix: occurs, but not at 0
            else
                c.t = gen_string(src, mode, 4);
            if (src.coin(25))
                c.t += gen_string(src, mode, 2);
            break;
        case JOIN:
        {
            int n = src.irange(0, 6);
            static const std::vector<std::string> el = { "",  "a",   "a ", " ",  "b", "  ",
                                                         "x y", ",",  "ab ", "\xc3\xa4" };
            for (int i = 0; i < n; ++i)
                c.list.push_back(src.coin(80) ? src.pick(el) : gen_string(src, mode, 4));
            static const std::vector<std::string> inf = { " ", "", ",", ", ", " cruel ", ";" };
            c.t = src.pick(inf);
            break;
        }
        case JOIN_ROWS:
        {
            int n = src.irange(0, 5);
            static const std::vector<std::string> cell = { "", "a", "b", "c ", "x y", " " };
            for (int i = 0; i < n; ++i)
            {
                std::string row;
                int k = src.irange(1, 4);
                for (int j = 0; j < k; ++j)
                    row += (j ? "|" : "") + src.pick(cell);
                c.list.push_back(row);
            }
            static const std::vector<std::string> inf = { ";", " ", "", ", " };
            c.t = src.pick(inf);
            break;
        }
        case JOIN_STREAM:
        {
            int n = src.irange(0, 6);
            static const std::vector<std::string> word = { "alpha", "b", "c,d", "x", "{}", "#" };
            for (int i = 0; i < n; ++i)
                c.list.push_back(src.pick(word));
            static const std::vector<std::string> inf = { ",", " ", "", "-" };
            c.t = src.pick(inf);
            break;
        }
        case JOIN_INT:
        {
            int n = src.irange(0, 6);
            for (int i = 0; i < n; ++i)
                c.ints.push_back(src.irange(-1000, 1000));
            static const std::vector<std::string> inf = { " ", "", ",", ", " };
            c.t = src.pick(inf);
            break;
        }
        case PADDED:
        {
            int n = src.irange(0, 12);
            for (int i = 0; i < n; ++i)
            {
                if (i)
                    c.s += src.coin(85) ? " " : "  ";
                c.s += std::string(static_cast<std::size_t>(src.coin(10) ? src.irange(20, 60)
                                                                        : src.irange(1, 9)),
                                   static_cast<char>('a' + src.irange(0, 5)));
            }
            c.pad = src.irange(0, 40);
            c.width = 80;
            break;
        }
        }
        return c;
    }

    // exhaustive sub-spaces: mode = "ex<L>" with haystack length bound L
    int L = 7;
    // "exz<L>": the alphabet {a, NUL, $} instead of {a, b} (bytes that C string functions and
    // pattern languages treat specially; std::string does not)
    std::string alphabet = "ab";
    if (mode.size() > 3 && mode.compare(0, 3, "exz") == 0)
    {
        L = std::atoi(mode.c_str() + 3);
        alphabet = std::string("a\0$", 3);
    }
    else if (mode.size() > 2 && mode.compare(0, 2, "ex") == 0)
        L = std::atoi(mode.c_str() + 2);
    c.fn = src.irange(0, 3);
    switch (c.fn)
    {
    case SPLIT:
    case STARTS:
        c.s = src.str(alphabet, 0, L);
        c.t = src.str(alphabet, 0, 3);
        break;
    case REPLACE:
        c.s = src.str(alphabet, 0, L);
        c.t = src.str(alphabet, 0, 3);
        c.u = src.str(alphabet, 0, 2);
        break;
    case JOIN:
    {
        static const std::vector<std::string> el = { "", "a", "a ", " " };
        static const std::vector<std::string> inf = { "", " ", ",", ", " };
        int n = src.irange(0, 4);
        for (int i = 0; i < n; ++i)
            c.list.push_back(src.pick(el));
        c.t = src.pick(inf);
        break;
    }
    }
    return c;
}

// ------------------------------------------------------------------ oracles

// positions of left-to-right non-overlapping occurrences, naive scanner
static std::vector<std::size_t> hits(const std::string& s, const std::string& n)
{
    std::vector<std::size_t> r;
    if (n.empty())
        return r;
    std::size_t i = 0;
    while (i + n.size() <= s.size())
    {
        bool eq = true;
        for (std::size_t k = 0; k < n.size(); ++k)
            if (s[i + k] != n[k])
            {
                eq = false;
                break;
            }
        if (eq)
        {
            r.push_back(i);
            i += n.size();
        }
        else
            ++i;
    }
    return r;
}

static bool occurs(const std::string& s, const std::string& n)
{
    return !n.empty() && !hits(s, n).empty();
}

static bool self_overlapping(const std::string& n)
{
    // a proper border exists (aa, aba, abab, ...)
    for (std::size_t k = 1; k < n.size(); ++k)
        if (n.compare(0, n.size() - k, n, k, n.size() - k) == 0)
            return true;
    return false;
}

static std::string list_str(const std::vector<std::string>& v)
{
    std::string r = "[";
    for (std::size_t i = 0; i < v.size(); ++i)
        r += (i ? ", " : "") + vf::vis(v[i]);
    return r + "]";
}

std::string check(const Case& c, vf::Ctx& ctx)
{
    ctx.tag(std::string("fn:") + fn_name(c.fn));
    switch (c.fn)
    {
    case SPLIT:
    {
        std::vector<std::string> got;
        bool threw = false;
        try
        {
            got = nitro::lang::split(c.s, c.t);
        }
        catch (const std::exception&)
        {
            threw = true;
        }
        if (c.t.empty())
        {
            ctx.tag("split:empty-needle");
            // documented by the suite: an empty separator raises
            if (!threw)
                return "split with an empty separator returned instead of raising";
            return "";
        }
        if (threw)
            return "split raised for a non-empty separator";
        auto h = hits(c.s, c.t);
        if (h.size() >= 2 || self_overlapping(c.t))
            ctx.mark_nontrivial();
        if (h.size() >= 2)
            ctx.tag("split:multi-hit");
        if (self_overlapping(c.t) && !h.empty())
            ctx.tag("split:self-overlapping-needle-hit");
        // reference pieces
        std::vector<std::string> want;
        std::size_t start = 0;
        for (auto p : h)
        {
            want.push_back(c.s.substr(start, p - start));
            start = p + c.t.size();
        }
        want.push_back(c.s.substr(start));
        if (got.size() != h.size() + 1)
            return "split: number of pieces " + std::to_string(got.size()) + " != 1 + " +
                   std::to_string(h.size()) + " occurrences; got " + list_str(got);
        std::string glued;
        for (std::size_t i = 0; i < got.size(); ++i)
        {
            if (i)
                glued += c.t;
            glued += got[i];
            if (occurs(got[i], c.t))
                return "split: piece contains the separator: " + list_str(got);
        }
        if (glued != c.s)
            return "split: pieces glued with the separator give " + vf::vis(glued) +
                   ", pieces " + list_str(got);
        if (got != want)
            return "split: pieces " + list_str(got) + " differ from left-to-right scan " +
                   list_str(want);
        return "";
    }
    case REPLACE:
    {
        std::string got = c.s;
        if (c.t.empty())
        {
            // the statement only demands that the call comes back (or raises)
            ctx.tag("replace:empty-pattern");
            ctx.mark_nontrivial();
            try
            {
                nitro::lang::replace_all(got, c.t, c.u);
            }
            catch (const std::exception&)
            {
            }
            return "";
        }
        auto h = hits(c.s, c.t);
        bool rescan_risk = occurs(c.u, c.t) || occurs(c.u + c.s, c.t) != occurs(c.s, c.t);
        if (!h.empty() && (occurs(c.u, c.t) || h.size() >= 2 || self_overlapping(c.t)))
            ctx.mark_nontrivial();
        if (!h.empty() && occurs(c.u, c.t))
            ctx.tag("replace:pattern-in-replacement");
        if (h.size() >= 2)
            ctx.tag("replace:multi-hit");
        (void)rescan_risk;
        std::string want;
        std::size_t start = 0;
        for (auto p : h)
        {
            want += c.s.substr(start, p - start);
            want += c.u;
            start = p + c.t.size();
        }
        want += c.s.substr(start);
        try
        {
            nitro::lang::replace_all(got, c.t, c.u);
        }
        catch (const std::exception& e)
        {
            return std::string("replace_all raised for a non-empty pattern: ") + e.what();
        }
        if (got != want)
            return "replace_all gives " + vf::vis(got) + ", single left-to-right pass gives " +
                   vf::vis(want);
        return "";
    }
    case STARTS:
    {
        bool want = c.t.size() <= c.s.size();
        for (std::size_t i = 0; want && i < c.t.size(); ++i)
            if (c.s[i] != c.t[i])
                want = false;
        bool got = nitro::lang::starts_with(c.s, c.t);
        bool elsewhere = c.s.find(c.t) != std::string::npos && !want;
        if (elsewhere || c.t.empty() || (want && c.t.size() == c.s.size()))
            ctx.mark_nontrivial();
        if (elsewhere)
            ctx.tag("starts:occurs-not-at-0");
        if (got != want)
            return std::string("starts_with gives ") + (got ? "true" : "false");
        return "";
    }
    case JOIN:
    {
        std::string want;
        bool first = true, special = false;
        for (auto& e : c.list)
        {
            if (e.empty())
            {
                special = true;
                continue;
            }
            if (e.back() == ' ')
                special = true;
            if (!first)
                want += c.t;
            want += e;
            first = false;
        }
        if (special)
        {
            ctx.mark_nontrivial();
            ctx.tag("join:empty-or-blank-ended-element");
        }
        if (!c.list.empty() && c.list.back().empty())
            ctx.tag("join:trailing-empty");
        std::string got = nitro::lang::join(c.list, c.t);
        std::string got2 = nitro::lang::join(c.list.begin(), c.list.end(), c.t);
        if (got != got2)
            return "join: vector and iterator overloads differ";
        if (got != want)
            return "join gives " + vf::vis(got) + ", expected " + vf::vis(want);
        return "";
    }
    case JOIN_ROWS:
    {
        // reference: every row rendered on its own (non-empty cells, comma separated), then the
        // non-empty renderings separated by the infix
        std::vector<Row> rows;
        std::string want;
        bool first = true;
        for (auto& text : c.list)
        {
            rows.push_back(row_of(text));
            std::string r;
            bool f2 = true;
            for (auto& cell : rows.back().cells)
            {
                if (cell.empty())
                    continue;
                r += (f2 ? "" : ",") + cell;
                f2 = false;
            }
            if (r.empty())
                continue;
            want += (first ? "" : c.t) + r;
            first = false;
        }
        if (rows.size() >= 2)
            ctx.mark_nontrivial();
        ctx.tag("join:element-joins-its-own-parts");
        std::string got = nitro::lang::join(rows.begin(), rows.end(), c.t);
        if (got != want)
            return "join of rows that join their own cells gives " + vf::vis(got) + ", expected " + vf::vis(want);
        return "";
    }
    case JOIN_STREAM:
    {
        // the words through istream_iterator<std::string> (whitespace separated), then the same text
        // character by character through istreambuf_iterator<char>
        std::string text, want_words, want_chars;
        for (std::size_t i = 0; i < c.list.size(); ++i)
        {
            text += (i ? " " : "") + c.list[i];
            want_words += (i ? c.t : "") + c.list[i];
        }
        for (std::size_t i = 0; i < text.size(); ++i)
            want_chars += (i ? c.t : "") + std::string(1, text[i]);
        if (c.list.size() >= 2)
            ctx.mark_nontrivial();
        ctx.tag("join:single-pass-iterators");
        std::istringstream in1(text);
        std::string got = nitro::lang::join(std::istream_iterator<std::string>(in1), std::istream_iterator<std::string>(), c.t);
        if (got != want_words)
            return "join over istream_iterator<string> of " + vf::vis(text) + " gives " + vf::vis(got) + ", expected " +
                   vf::vis(want_words);
        std::istringstream in2(text);
        std::string got2 = nitro::lang::join(std::istreambuf_iterator<char>(in2), std::istreambuf_iterator<char>(), c.t);
        if (got2 != want_chars)
            return "join over istreambuf_iterator<char> of " + vf::vis(text) + " gives " + vf::vis(got2) + ", expected " +
                   vf::vis(want_chars);
        return "";
    }
    case JOIN_INT:
    {
        std::string want;
        for (std::size_t i = 0; i < c.ints.size(); ++i)
        {
            if (i)
                want += c.t;
            want += std::to_string(c.ints[i]);
        }
        if (c.ints.size() >= 2)
            ctx.mark_nontrivial();
        std::string got = nitro::lang::join(c.ints.begin(), c.ints.end(), c.t);
        if (got != want)
            return "join<int> gives " + vf::vis(got) + ", expected " + vf::vis(want);
        return "";
    }
    case PADDED:
    {
        // io/terminal.hpp is built on split/replace_all: no word may be lost or
        // reordered whatever the widths are (the column rule belongs to C15).
        std::ostringstream o;
        nitro::io::terminal::format_padded(o, c.s, c.pad, c.width);
        std::vector<std::string> want, got;
        {
            std::istringstream in(c.s);
            std::string w;
            while (in >> w)
                want.push_back(w);
        }
        {
            std::istringstream in(o.str());
            std::string w;
            while (in >> w)
                got.push_back(w);
        }
        if (want.size() >= 3)
            ctx.mark_nontrivial();
        if (got != want)
            return "format_padded lost or reordered words: " + vf::vis(o.str(), 400);
        return "";
    }
    }
    return "harness: unknown function code";
}
} // namespace h

#define VF_WATCHDOG_SECONDS 3
#include "common/vmain.hpp"
