// Driver entry points shared by all harnesses. Include after defining
// namespace h { Case, property_ids, generate, check, describe } (see
// vcommon.hpp). Optional customisation points (define the macro before
// including this file):
//   VF_WATCHDOG_SECONDS   CPU budget per case (default 20)
//   VF_PER_CASE_RESET     statement executed before every case
#pragma once

#include "vcommon.hpp"

#ifndef VF_FUZZ
#include <rapidcheck.h>
#endif

#ifndef VF_WATCHDOG_SECONDS
#define VF_WATCHDOG_SECONDS 20
#endif

namespace vf
{

#ifndef VF_FUZZ
struct RcSrc : Src
{
    std::uint64_t range(std::uint64_t lo, std::uint64_t hi) override
    {
        if (lo == hi)
            return lo;
        if (hi - lo == ~0ull)
            return *rc::gen::resize(100, rc::gen::arbitrary<std::uint64_t>());
        // inRange is [min, max); resize pins the distribution so it does not
        // collapse at small sizes
        std::uint64_t span = hi - lo;
        return lo + *rc::gen::resize(100, rc::gen::inRange<std::uint64_t>(0, span + 1));
    }
};
#endif

// Runs one case: bookkeeping, watchdog, oracle. Returns the failure message
// ("" if the property held).
#ifndef VF_SHRINK_SECONDS
#define VF_SHRINK_SECONDS 20
#endif

inline std::string run_case(const h::Case& c)
{
    // Shrinking budget: rapidcheck has no cap of its own and a case with thousands of
    // choices can take hours to shrink. Once the budget after the first failure is used up,
    // every further shrink candidate is reported as passing without being run, which ends
    // the shrink with the smallest failing case found so far (already saved). This clock
    // never decides a verdict.
    static double first_failure_at = -1;
    {
        struct timespec ts;
        clock_gettime(CLOCK_MONOTONIC, &ts);
        double now = ts.tv_sec + ts.tv_nsec * 1e-9;
        if (first_failure_at >= 0 && cfg().driver == "rc" && now - first_failure_at > VF_SHRINK_SECONDS)
            return "";
    }
    std::string text = to_text(c);
    set_current_case(text);
#ifdef VF_PER_CASE_RESET
    VF_PER_CASE_RESET;
#endif
    Ctx ctx;
    arm_watchdog(VF_WATCHDOG_SECONDS);
    std::string msg;
    try
    {
        msg = h::check(c, ctx);
    }
    catch (const std::exception& e)
    {
        msg = std::string("harness: unexpected exception escaped check(): ") + e.what();
    }
    disarm_watchdog();
    clear_current_case();

    Stats& st = stats();
    st.evaluations++;
    for (auto& t : ctx.cls)
        st.classes[t]++;
    for (auto& kv : ctx.adds)
        st.classes[kv.first] += kv.second;
    if (ctx.nontrivial)
    {
        st.nontrivial_total++;
        if (st.nontrivial.insert(fnv1a(text)).second && st.samples.size() < 5)
            st.samples.push_back(h::describe(c));
    }
    if (!msg.empty())
    {
        if (first_failure_at < 0)
        {
            struct timespec ts;
            clock_gettime(CLOCK_MONOTONIC, &ts);
            first_failure_at = ts.tv_sec + ts.tv_nsec * 1e-9;
        }
        st.failures++;
        if (!cfg().art_prefix.empty())
        {
            std::string body = "# verdict=fail\n# message=" + json_escape(msg) + "\n# property=" +
                               h::property_ids() + "\n# mode=" + cfg().mode + "\n# sample=" +
                               json_escape(h::describe(c)) + "\n" + text;
            write_file(cfg().art_prefix + "fail.case", body);
        }
    }
    return msg;
}

inline void parse_args(int argc, char** argv)
{
    Config& c = cfg();
    for (int i = 1; i < argc; ++i)
    {
        std::string a = argv[i];
        auto need = [&](const char* what) -> std::string {
            if (i + 1 >= argc)
            {
                std::cerr << "missing value for " << what << "\n";
                std::exit(2);
            }
            return argv[++i];
        };
        if (a == "--mode")
            c.mode = need("--mode");
        else if (a == "--driver")
            c.driver = need("--driver");
        else if (a == "--stats")
            c.stats_path = need("--stats");
        else if (a == "--art")
            c.art_prefix = need("--art");
        else if (a == "--limit")
            c.limit = std::stoll(need("--limit"));
        else if (a == "--shard")
        {
            std::string sh = need("--shard"); // i/n
            c.shard_i = std::stoll(sh.substr(0, sh.find('/')));
            c.shard_n = std::stoll(sh.substr(sh.find('/') + 1));
        }
        else if (a == "--replay")
        {
            c.driver = "replay";
            c.replay_path = need("--replay");
        }
        else if (a == "--exclude")
        {
            std::string s = need("--exclude");
            std::istringstream in(s);
            std::string k;
            while (std::getline(in, k, ','))
                if (!k.empty())
                    c.exclude.insert(k);
        }
        else if (a == "-v")
            c.verbose = true;
        else
        {
            std::cerr << "unknown argument " << a << "\n";
            std::exit(2);
        }
    }
}

#ifndef VF_FUZZ
inline int main_impl(int argc, char** argv)
{
    parse_args(argc, argv);
    install_death_handlers();
    Config& c = cfg();
    int rc_exit = 0;

    if (c.driver == "replay")
    {
        std::string text = read_file(c.replay_path);
        // a replay file may carry its own mode / exclusion context
        {
            std::istringstream in(text);
            std::string line;
            while (std::getline(in, line))
                if (line.rfind("# mode=", 0) == 0 && c.mode == "rc")
                    c.mode = line.substr(7);
        }
        h::Case cs = from_text<h::Case>(text);
        std::string msg = run_case(cs);
        if (!msg.empty())
        {
            std::cout << "REPLAY-FAIL " << msg << "\n";
            rc_exit = 1;
        }
        else
            std::cout << "REPLAY-OK\n";
    }
    else if (c.driver == "enum")
    {
        EnumSrc src;
        long long n = 0, generated = 0;
        bool complete = true;
        do
        {
            src.begin();
            h::Case cs = h::generate(src, c.mode);
            // sharded enumeration: every worker walks the whole space and checks
            // only its residue class of case numbers
            if (c.shard_n > 1 && (generated++ % c.shard_n) != c.shard_i)
                continue;
            std::string msg = run_case(cs);
            ++n;
            if (!msg.empty())
            {
                std::cout << "ENUM-FAIL after " << n << " cases: " << msg << "\n";
                rc_exit = 1;
                complete = false;
                break;
            }
            if (c.limit && n >= c.limit)
            {
                complete = false;
                break;
            }
        } while (src.next());
        stats().exhaustive_done = complete;
        std::cout << "ENUM " << (complete ? "complete" : "stopped") << " after " << n
                  << " cases\n";
    }
    else
    {
        bool ok = rc::check(std::string(h::property_ids()) + " mode=" + c.mode, [&] {
            RcSrc src;
            h::Case cs = h::generate(src, c.mode);
            std::string msg = run_case(cs);
            if (!msg.empty())
                RC_FAIL(msg);
        });
        rc_exit = ok ? 0 : 1;
    }
    stats().dump();
    return rc_exit;
}
#endif

} // namespace vf

#ifdef VF_FUZZ
// libFuzzer entry: bytes -> Case through the same generator. The semantic
// oracle runs inside the target; a violation dumps the case and traps.
extern "C" int LLVMFuzzerInitialize(int* argc, char*** argv)
{
    // harness options are passed through the environment for fuzz targets
    const char* art = std::getenv("VF_ART");
    const char* st = std::getenv("VF_STATS");
    const char* mode = std::getenv("VF_MODE");
    const char* ex = std::getenv("VF_EXCLUDE");
    vf::Config& c = vf::cfg();
    c.driver = "fuzz";
    if (art)
        c.art_prefix = std::string(art) + "p" + std::to_string(getpid()) + "-";
    if (st)
        c.stats_path = std::string(st) + "." + std::to_string(getpid());
    c.mode = mode ? mode : "fuzz";
    if (ex)
    {
        std::istringstream in(ex);
        std::string k;
        while (std::getline(in, k, ','))
            if (!k.empty())
                c.exclude.insert(k);
    }
    (void)argc;
    (void)argv;
    vf::install_death_handlers();
    std::atexit([] { vf::stats().dump(); });
    return 0;
}

extern "C" int LLVMFuzzerTestOneInput(const std::uint8_t* data, std::size_t size)
{
    vf::BytesSrc src(data, size);
    h::Case cs = h::generate(src, vf::cfg().mode);
    std::string msg = vf::run_case(cs);
    if (!msg.empty())
    {
        vf::stats().dump();
        std::fprintf(stderr, "PROPERTY VIOLATION: %s\n", msg.c_str());
        __builtin_trap();
    }
    if ((vf::stats().evaluations & 0xffff) == 0)
        vf::stats().dump();
    return 0;
}
#else
int main(int argc, char** argv)
{
    return vf::main_impl(argc, argv);
}
#endif
