// Instrumented element types (DESIGN.md 3.2): every object registers its
// address in a global live-set; constructing over a live address, destroying
// a non-live address or a non-empty live-set at the end of a case are
// violations independent of ASan/LSan. A global fault countdown makes the
// n-th copy/move throw.
#pragma once

#include <cstdint>
#include <stdexcept>
#include <string>
#include <unordered_set>

namespace tr
{

struct Fault : std::exception
{
    const char* what() const noexcept override
    {
        return "injected element fault";
    }
};

struct Registry
{
    std::unordered_set<const void*> live;
    std::string error; // first accounting error of the case
    long countdown = 0; // 0 = disarmed; n = the n-th copy/move throws
    long ctor_countdown = 0; // 0 = disarmed; n = the n-th construction from a value throws
    bool default_is_caller = false; // a default construction requested by the caller (emplace_back())
    std::uint64_t copies = 0, moves = 0, faults_thrown = 0;

    void reset()
    {
        live.clear();
        error.clear();
        countdown = 0;
        ctor_countdown = 0;
        default_is_caller = false;
        copies = moves = faults_thrown = 0;
    }
    void born(const void* p)
    {
        if (!live.insert(p).second && error.empty())
            error = "element constructed over a live element (no destruction in between)";
    }
    void died(const void* p)
    {
        if (!live.erase(p) && error.empty())
            error = "element destroyed twice (or destroyed without construction)";
    }
    void tick_ctor()
    {
        if (ctor_countdown > 0 && --ctor_countdown == 0)
        {
            ++faults_thrown;
            throw Fault();
        }
    }
    void tick(bool is_move)
    {
        (is_move ? moves : copies)++;
        if (countdown > 0 && --countdown == 0)
        {
            ++faults_thrown;
            throw Fault();
        }
    }
};

inline Registry& reg()
{
    static Registry* r = new Registry;
    return *r;
}

enum Origin
{
    CONTAINER_DEFAULT = 0,
    CALLER = 1
};

// copyable and movable
struct Tracked
{
    int value = 0;
    int origin = CONTAINER_DEFAULT;
    bool moved_from = false;

    Tracked() : origin(reg().default_is_caller ? CALLER : CONTAINER_DEFAULT)
    {
        reg().born(this);
    }
    explicit Tracked(int v) : value(v), origin(CALLER)
    {
        reg().tick_ctor(); // may throw before the object exists
        reg().born(this);
    }
    Tracked(const Tracked& o) : value(o.value), origin(o.origin), moved_from(o.moved_from)
    {
        reg().tick(false);
        reg().born(this);
    }
    Tracked(Tracked&& o) : value(o.value), origin(o.origin), moved_from(o.moved_from)
    {
        reg().tick(true);
        o.moved_from = true;
        reg().born(this);
    }
    Tracked& operator=(const Tracked& o)
    {
        reg().tick(false);
        value = o.value;
        origin = o.origin;
        moved_from = o.moved_from;
        return *this;
    }
    Tracked& operator=(Tracked&& o)
    {
        reg().tick(true);
        value = o.value;
        origin = o.origin;
        moved_from = o.moved_from;
        if (&o != this)
            o.moved_from = true;
        return *this;
    }
    ~Tracked()
    {
        reg().died(this);
    }
    static constexpr bool copyable = true;
};

// copyable, but not move-assignable (a deleted move assignment, no move constructor): a container has to
// fall back to copies wherever it would move
struct CaTracked
{
    int value = 0;
    int origin = CONTAINER_DEFAULT;
    bool moved_from = false;

    CaTracked() : origin(reg().default_is_caller ? CALLER : CONTAINER_DEFAULT)
    {
        reg().born(this);
    }
    explicit CaTracked(int v) : value(v), origin(CALLER)
    {
        reg().tick_ctor();
        reg().born(this);
    }
    CaTracked(const CaTracked& o) : value(o.value), origin(o.origin), moved_from(o.moved_from)
    {
        reg().tick(false);
        reg().born(this);
    }
    CaTracked& operator=(const CaTracked& o)
    {
        reg().tick(false);
        value = o.value;
        origin = o.origin;
        moved_from = o.moved_from;
        return *this;
    }
    CaTracked& operator=(CaTracked&&) = delete;
    ~CaTracked()
    {
        reg().died(this);
    }
    static constexpr bool copyable = true;
};

// copyable, and every special member is noexcept (no fault injection): containers that switch to
// a different code path for nothrow-assignable elements take that path with this type
struct NxTracked
{
    int value = 0;
    int origin = CONTAINER_DEFAULT;
    bool moved_from = false;

    NxTracked() noexcept : origin(reg().default_is_caller ? CALLER : CONTAINER_DEFAULT)
    {
        reg().born(this);
    }
    explicit NxTracked(int v) noexcept : value(v), origin(CALLER)
    {
        reg().born(this);
    }
    NxTracked(const NxTracked& o) noexcept : value(o.value), origin(o.origin), moved_from(o.moved_from)
    {
        reg().born(this);
    }
    NxTracked(NxTracked&& o) noexcept : value(o.value), origin(o.origin), moved_from(o.moved_from)
    {
        o.moved_from = true;
        reg().born(this);
    }
    NxTracked& operator=(const NxTracked& o) noexcept
    {
        value = o.value;
        origin = o.origin;
        moved_from = o.moved_from;
        return *this;
    }
    NxTracked& operator=(NxTracked&& o) noexcept
    {
        value = o.value;
        origin = o.origin;
        moved_from = o.moved_from;
        if (&o != this)
            o.moved_from = true;
        return *this;
    }
    ~NxTracked()
    {
        reg().died(this);
    }
    static constexpr bool copyable = true;
};

// move-only
struct MoTracked
{
    int value = 0;
    int origin = CONTAINER_DEFAULT;
    bool moved_from = false;

    MoTracked() : origin(reg().default_is_caller ? CALLER : CONTAINER_DEFAULT)
    {
        reg().born(this);
    }
    explicit MoTracked(int v) : value(v), origin(CALLER)
    {
        reg().tick_ctor(); // may throw before the object exists
        reg().born(this);
    }
    MoTracked(const MoTracked&) = delete;
    MoTracked& operator=(const MoTracked&) = delete;
    MoTracked(MoTracked&& o) : value(o.value), origin(o.origin), moved_from(o.moved_from)
    {
        reg().tick(true);
        o.moved_from = true;
        reg().born(this);
    }
    MoTracked& operator=(MoTracked&& o)
    {
        reg().tick(true);
        value = o.value;
        origin = o.origin;
        moved_from = o.moved_from;
        if (&o != this)
            o.moved_from = true;
        return *this;
    }
    ~MoTracked()
    {
        reg().died(this);
    }
    static constexpr bool copyable = false;
};

} // namespace tr
