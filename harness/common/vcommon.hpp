// Shared machinery of all property harnesses: choice sources (rapidcheck,
// libFuzzer bytes, exhaustive odometer), case text I/O, statistics,
// artifacts, abnormal-termination capture and the CPU-time watchdog.
//
// A harness TU defines, before including vmain.hpp:
//
//   namespace h {
//     struct Case { ...; template <class A> void io(A& a) { a("f", f); ... } };
//     const char* property_ids();                    // "C06,C07"
//     Case generate(vf::Src&, const std::string& mode);
//     std::string check(const Case&, vf::Ctx&);      // "" = holds, else message
//     std::string describe(const Case&);             // human readable sample
//   }
#pragma once

#include <algorithm>
#include <cerrno>
#include <csignal>
#include <cstdint>
#include <cstdio>
#include <cstdlib>
#include <cstring>
#include <exception>
#include <fcntl.h>
#include <fstream>
#include <functional>
#include <iostream>
#include <map>
#include <set>
#include <sstream>
#include <stdexcept>
#include <string>
#include <sys/resource.h>
#include <sys/time.h>
#include <time.h>
#include <unistd.h>
#include <unordered_set>
#include <vector>

namespace vf
{

// ----------------------------------------------------------------------------
// small helpers

inline std::string hex(const std::string& s)
{
    static const char* d = "0123456789abcdef";
    std::string r;
    r.reserve(s.size() * 2);
    for (unsigned char c : s)
    {
        r.push_back(d[c >> 4]);
        r.push_back(d[c & 15]);
    }
    return r;
}

inline std::string unhex(const std::string& s)
{
    auto v = [](char c) -> int {
        if (c >= '0' && c <= '9')
            return c - '0';
        if (c >= 'a' && c <= 'f')
            return c - 'a' + 10;
        if (c >= 'A' && c <= 'F')
            return c - 'A' + 10;
        throw std::runtime_error("bad hex digit in case file");
    };
    if (s.size() % 2)
        throw std::runtime_error("odd hex length in case file");
    std::string r;
    for (std::size_t i = 0; i < s.size(); i += 2)
        r.push_back(static_cast<char>(v(s[i]) * 16 + v(s[i + 1])));
    return r;
}

// printable rendering for samples: keeps ASCII, escapes the rest
inline std::string vis(const std::string& s, std::size_t max = 120)
{
    std::string r = "\"";
    std::size_t n = 0;
    for (unsigned char c : s)
    {
        if (n++ >= max)
        {
            r += "...(" + std::to_string(s.size()) + " bytes)";
            break;
        }
        if (c == '\\' || c == '"')
        {
            r.push_back('\\');
            r.push_back(static_cast<char>(c));
        }
        else if (c >= 32 && c < 127)
            r.push_back(static_cast<char>(c));
        else
        {
            char b[8];
            std::snprintf(b, sizeof b, "\\x%02x", c);
            r += b;
        }
    }
    r += "\"";
    return r;
}

inline std::uint64_t fnv1a(const std::string& s)
{
    std::uint64_t h = 1469598103934665603ull;
    for (unsigned char c : s)
    {
        h ^= c;
        h *= 1099511628211ull;
    }
    return h;
}

inline std::string json_escape(const std::string& s)
{
    std::string r;
    for (unsigned char c : s)
    {
        switch (c)
        {
        case '"':
            r += "\\\"";
            break;
        case '\\':
            r += "\\\\";
            break;
        case '\n':
            r += "\\n";
            break;
        case '\t':
            r += "\\t";
            break;
        default:
            if (c < 32 || c >= 127)
            {
                char b[8];
                std::snprintf(b, sizeof b, "\\u%04x", c);
                r += b;
            }
            else
                r.push_back(static_cast<char>(c));
        }
    }
    return r;
}

// ----------------------------------------------------------------------------
// The string literals of the tree under test (file named by VF_LITERALS, one literal per line in hex;
// written by the driver from include/ and src/). Generators draw from them now and then: the values the
// code mentions are the values it may treat specially. Empty when the variable is not set (replays).
inline const std::vector<std::string>& source_literals()
{
    static const std::vector<std::string>* lits = [] {
        auto* v = new std::vector<std::string>;
        const char* path = std::getenv("VF_LITERALS");
        if (!path)
            return v;
        std::ifstream in(path);
        std::string line;
        while (std::getline(in, line))
        {
            std::string b;
            for (std::size_t i = 0; i + 1 < line.size(); i += 2)
                b.push_back(static_cast<char>(std::stoi(line.substr(i, 2), nullptr, 16)));
            if (!b.empty())
                v->push_back(b);
        }
        return v;
    }();
    return *lits;
}

// choice sources

struct Src
{
    virtual ~Src() = default;
    // uniform-ish choice in [lo, hi], both inclusive; shrinks towards lo
    virtual std::uint64_t range(std::uint64_t lo, std::uint64_t hi) = 0;

    int irange(int lo, int hi)
    {
        return lo + static_cast<int>(range(0, static_cast<std::uint64_t>(hi - lo)));
    }
    std::size_t index(std::size_t n)
    {
        return static_cast<std::size_t>(range(0, n - 1));
    }
    bool coin(int percent)
    {
        // true with the given probability; shrinks towards false
        return range(0, 99) >= static_cast<std::uint64_t>(100 - percent);
    }
    template <class T>
    const T& pick(const std::vector<T>& v)
    {
        return v[index(v.size())];
    }
    // For stateful generators: true in ~3% of the calls and - because choices shrink towards
    // their lower bound - the value every shrink attempt tries first. "if (src.skip()) continue;"
    // in an operation loop lets the shrinker delete operations from the middle of a history.
    bool skip()
    {
        return range(0, 30) == 0;
    }
    // weighted choice, returns index; shrinks towards index 0
    std::size_t weighted(std::initializer_list<int> w)
    {
        int total = 0;
        for (int x : w)
            total += x;
        int r = irange(0, total - 1);
        std::size_t i = 0;
        for (int x : w)
        {
            if (r < x)
                return i;
            r -= x;
            ++i;
        }
        return w.size() - 1;
    }
    // string of length [lo,hi] over an alphabet
    std::string str(const std::string& alphabet, int lo, int hi)
    {
        int n = irange(lo, hi);
        std::string r;
        for (int i = 0; i < n; ++i)
            r.push_back(alphabet[index(alphabet.size())]);
        return r;
    }
    // arbitrary bytes without NUL
    std::string bytes_nonul(int lo, int hi)
    {
        int n = irange(lo, hi);
        std::string r;
        for (int i = 0; i < n; ++i)
            r.push_back(static_cast<char>(range(1, 255)));
        return r;
    }
};

// source that replays / enumerates a tape of choices (odometer). Used for
// exhaustive sub-spaces: run the generator repeatedly until next() is false.
struct EnumSrc : Src
{
    std::vector<std::uint64_t> tape, lo_, hi_;
    std::size_t pos = 0;

    std::uint64_t range(std::uint64_t lo, std::uint64_t hi) override
    {
        if (pos == tape.size())
        {
            tape.push_back(lo);
            lo_.push_back(lo);
            hi_.push_back(hi);
        }
        else
        {
            // the shape of the choice tree may depend on earlier choices only
            lo_[pos] = lo;
            hi_[pos] = hi;
            if (tape[pos] < lo || tape[pos] > hi)
                tape[pos] = lo;
        }
        return tape[pos++];
    }
    void begin()
    {
        pos = 0;
    }
    // advance to the next tape; false when the space is exhausted
    bool next()
    {
        // drop choices not consumed in the last run
        tape.resize(pos);
        lo_.resize(pos);
        hi_.resize(pos);
        while (!tape.empty())
        {
            if (tape.back() < hi_.back())
            {
                ++tape.back();
                pos = 0;
                return true;
            }
            tape.pop_back();
            lo_.pop_back();
            hi_.pop_back();
        }
        pos = 0;
        return false;
    }
};

// byte-driven source for libFuzzer targets (and for replaying raw fuzz inputs)
struct BytesSrc : Src
{
    const std::uint8_t* p;
    std::size_t n, i = 0;
    bool exhausted = false;
    BytesSrc(const std::uint8_t* data, std::size_t size) : p(data), n(size)
    {
    }
    std::uint64_t range(std::uint64_t lo, std::uint64_t hi) override
    {
        std::uint64_t span = hi - lo;
        if (span == 0)
            return lo;
        std::uint64_t v = 0;
        std::uint64_t s = span;
        while (s)
        {
            std::uint8_t b = 0;
            if (i < n)
                b = p[i++];
            else
                exhausted = true;
            v = (v << 8) | b;
            s >>= 8;
        }
        if (span == ~0ull)
            return lo + v;
        return lo + v % (span + 1);
    }
};

// ----------------------------------------------------------------------------
// case text I/O: one "key=value" per line, strings hex encoded, vectors and
// nested structs with dotted/indexed keys.

struct Writer
{
    std::ostringstream out;
    std::string prefix;

    void put(const std::string& k, const std::string& v)
    {
        out << prefix << k << "=" << v << "\n";
    }
    void operator()(const char* k, const std::string& v)
    {
        put(k, "x" + hex(v));
    }
    void operator()(const char* k, bool& v)
    {
        put(k, v ? "1" : "0");
    }
    template <class T>
    std::enable_if_t<std::is_integral<T>::value && !std::is_same<T, bool>::value>
    operator()(const char* k, T& v)
    {
        put(k, std::to_string(v));
    }
    template <class T>
    std::enable_if_t<std::is_enum<T>::value> operator()(const char* k, T& v)
    {
        put(k, std::to_string(static_cast<long long>(v)));
    }
    template <class T>
    std::enable_if_t<std::is_class<T>::value && !std::is_same<T, std::string>::value>
    operator()(const char* k, T& v)
    {
        std::string save = prefix;
        prefix += std::string(k) + ".";
        v.io(*this);
        prefix = save;
    }
    template <class T>
    void operator()(const char* k, std::vector<T>& v)
    {
        put(std::string(k) + ".n", std::to_string(v.size()));
        for (std::size_t i = 0; i < v.size(); ++i)
        {
            std::string key = std::string(k) + "." + std::to_string(i);
            elem(key.c_str(), v[i]);
        }
    }
    void operator()(const char* k, std::vector<bool>& v)
    {
        std::string s;
        for (bool b : v)
            s.push_back(b ? '1' : '0');
        put(k, "b" + s);
    }

private:
    template <class T>
    void elem(const char* k, T& v)
    {
        (*this)(k, v);
    }
};

struct Reader
{
    std::map<std::string, std::string> kv;
    std::string prefix;

    explicit Reader(const std::string& text)
    {
        std::istringstream in(text);
        std::string line;
        while (std::getline(in, line))
        {
            if (line.empty() || line[0] == '#')
                continue;
            auto eq = line.find('=');
            if (eq == std::string::npos)
                continue;
            kv[line.substr(0, eq)] = line.substr(eq + 1);
        }
    }
    // A key that is missing keeps the field's default: case files written before a field was
    // added to a Case stay readable.
    bool has(const std::string& k) const
    {
        return kv.find(prefix + k) != kv.end();
    }
    const std::string& get(const std::string& k)
    {
        auto it = kv.find(prefix + k);
        if (it == kv.end())
            throw std::runtime_error("case file: missing key " + prefix + k);
        return it->second;
    }
    void operator()(const char* k, std::string& v)
    {
        if (!has(k))
            return;
        const std::string& s = get(k);
        if (s.empty() || s[0] != 'x')
            throw std::runtime_error("case file: bad string for " + prefix + k);
        v = unhex(s.substr(1));
    }
    void operator()(const char* k, bool& v)
    {
        if (has(k))
            v = get(k) == "1";
    }
    template <class T>
    std::enable_if_t<std::is_integral<T>::value && !std::is_same<T, bool>::value>
    operator()(const char* k, T& v)
    {
        if (has(k))
            v = static_cast<T>(std::stoll(get(k)));
    }
    template <class T>
    std::enable_if_t<std::is_enum<T>::value> operator()(const char* k, T& v)
    {
        if (has(k))
            v = static_cast<T>(std::stoll(get(k)));
    }
    template <class T>
    std::enable_if_t<std::is_class<T>::value && !std::is_same<T, std::string>::value>
    operator()(const char* k, T& v)
    {
        std::string save = prefix;
        prefix += std::string(k) + ".";
        v.io(*this);
        prefix = save;
    }
    template <class T>
    void operator()(const char* k, std::vector<T>& v)
    {
        if (!has(std::string(k) + ".n"))
            return;
        std::size_t n = static_cast<std::size_t>(std::stoull(get(std::string(k) + ".n")));
        v.clear();
        v.resize(n);
        for (std::size_t i = 0; i < n; ++i)
        {
            std::string key = std::string(k) + "." + std::to_string(i);
            (*this)(key.c_str(), v[i]);
        }
    }
    void operator()(const char* k, std::vector<bool>& v)
    {
        if (!has(k))
            return;
        const std::string& s = get(k);
        v.clear();
        for (std::size_t i = 1; i < s.size(); ++i)
            v.push_back(s[i] == '1');
    }
};

template <class C>
std::string to_text(const C& c)
{
    Writer w;
    const_cast<C&>(c).io(w);
    return w.out.str();
}

template <class C>
C from_text(const std::string& text)
{
    Reader r(text);
    C c;
    c.io(r);
    return c;
}

// ----------------------------------------------------------------------------
// run configuration and statistics

struct Config
{
    std::string mode = "rc";    // generator mode understood by the harness
    std::string driver = "rc";  // rc | enum | replay | fuzz
    std::string stats_path;     // JSON written at exit
    std::string art_prefix;     // artifact file prefix (dir/worker tag)
    std::set<std::string> exclude; // known-finding class keys excluded by construction
    std::string replay_path;
    long long limit = 0; // enumeration safety limit
    long long shard_i = 0, shard_n = 1; // enumeration sharding
    bool verbose = false;
};

inline Config& cfg()
{
    static Config* c = new Config;
    return *c;
}

inline bool excluded(const char* key)
{
    return cfg().exclude.count(key) != 0;
}

struct Stats
{
    std::uint64_t evaluations = 0;
    std::uint64_t nontrivial_total = 0;
    std::uint64_t failures = 0;
    std::map<std::string, std::uint64_t> classes;
    std::unordered_set<std::uint64_t> nontrivial;
    std::vector<std::string> samples;
    bool exhaustive_done = false;

    void dump() const
    {
        if (cfg().stats_path.empty())
            return;
        std::string tmp = cfg().stats_path + ".tmp";
        {
            std::ofstream o(tmp);
            o << "{\n \"evaluations\": " << evaluations << ",\n \"nontrivial_total\": "
              << nontrivial_total << ",\n \"failures\": " << failures
              << ",\n \"exhaustive_done\": " << (exhaustive_done ? "true" : "false")
              << ",\n \"mode\": \"" << json_escape(cfg().mode) << "\",\n \"driver\": \""
              << json_escape(cfg().driver) << "\",\n \"classes\": {";
            bool first = true;
            for (auto& kv : classes)
            {
                o << (first ? "" : ",") << "\n  \"" << json_escape(kv.first) << "\": " << kv.second;
                first = false;
            }
            o << "\n },\n \"samples\": [";
            first = true;
            for (auto& s : samples)
            {
                o << (first ? "" : ",") << "\n  \"" << json_escape(s) << "\"";
                first = false;
            }
            o << "\n ]\n}\n";
        }
        std::rename(tmp.c_str(), cfg().stats_path.c_str());
        // fingerprints: raw little-endian uint64, merged exactly by the driver
        std::string fp = cfg().stats_path + ".fps";
        FILE* f = std::fopen(fp.c_str(), "wb");
        if (f)
        {
            std::vector<std::uint64_t> v(nontrivial.begin(), nontrivial.end());
            if (!v.empty())
                std::fwrite(v.data(), sizeof(std::uint64_t), v.size(), f);
            std::fclose(f);
        }
    }
};

inline Stats& stats()
{
    // never destroyed: exit handlers and death callbacks still use it
    static Stats* s = new Stats;
    return *s;
}

// per-case context handed to check(): classification hooks
struct Ctx
{
    bool nontrivial = false;
    std::vector<std::string> cls;
    std::vector<std::pair<std::string, std::uint64_t>> adds;
    void tag(const std::string& c)
    {
        cls.push_back(c);
    }
    // numeric counter (e.g. comparisons done inside one grid case)
    void add(const std::string& c, std::uint64_t n)
    {
        adds.emplace_back(c, n);
    }
    void mark_nontrivial()
    {
        nontrivial = true;
    }
};

// ----------------------------------------------------------------------------
// abnormal termination and watchdog

namespace detail
{
    constexpr std::size_t BUF = 8u << 20;
    inline char* case_buf()
    {
        static char* b = static_cast<char*>(std::calloc(BUF, 1));
        return b;
    }
    inline std::size_t& case_len()
    {
        static std::size_t n = 0;
        return n;
    }
    inline char* death_path()
    {
        static char p[4096];
        return p;
    }
    inline volatile sig_atomic_t& in_case()
    {
        static volatile sig_atomic_t f = 0;
        return f;
    }

    inline void write_all(int fd, const char* p, std::size_t n)
    {
        while (n)
        {
            ssize_t w = ::write(fd, p, n);
            if (w <= 0)
                return;
            p += w;
            n -= static_cast<std::size_t>(w);
        }
    }

    // async-signal-safe: dump the current case with a verdict line
    inline void dump_death(const char* verdict)
    {
        if (!in_case() || death_path()[0] == 0)
            return;
        int fd = ::open(death_path(), O_WRONLY | O_CREAT | O_TRUNC, 0644);
        if (fd < 0)
            return;
        const char* h = "# verdict=";
        write_all(fd, h, std::strlen(h));
        write_all(fd, verdict, std::strlen(verdict));
        write_all(fd, "\n", 1);
        write_all(fd, case_buf(), case_len());
        ::close(fd);
    }

    inline void on_signal(int sig)
    {
        const char* v = "terminated:signal";
        if (sig == SIGPROF)
            v = "hang:cpu-watchdog";
        else if (sig == SIGALRM)
            v = "hang:wall-clock-watchdog";
        else if (sig == SIGSEGV)
            v = "terminated:SIGSEGV";
        else if (sig == SIGABRT)
            v = "terminated:SIGABRT";
        else if (sig == SIGBUS)
            v = "terminated:SIGBUS";
        else if (sig == SIGFPE)
            v = "terminated:SIGFPE";
        else if (sig == SIGILL)
            v = "terminated:SIGILL";
        dump_death(v);
        if (sig == SIGPROF || sig == SIGALRM)
            ::_exit(3);
        ::signal(sig, SIG_DFL);
        ::raise(sig);
        ::_exit(4);
    }

    inline void best_effort_stats();

    inline void on_sanitizer_death()
    {
        dump_death("terminated:sanitizer-report");
        best_effort_stats();
    }

    inline void on_terminate()
    {
        dump_death("terminated:std::terminate");
        best_effort_stats();
        ::_exit(5);
    }
} // namespace detail

} // namespace vf

extern "C" void __sanitizer_set_death_callback(void (*)(void));

namespace vf
{

inline void detail::best_effort_stats()
{
    // the process is about to die: keep what was counted so far (not
    // async-signal-safe, but there is nothing left to lose)
    static bool once = false;
    if (once)
        return;
    once = true;
    stats().dump();
}

inline void install_death_handlers()
{
    detail::case_buf();
    if (!cfg().art_prefix.empty())
    {
        std::string p = cfg().art_prefix + "death.case";
        std::snprintf(detail::death_path(), 4096, "%s", p.c_str());
    }
    static char altstack[1 << 16];
    stack_t ss;
    ss.ss_sp = altstack;
    ss.ss_size = sizeof altstack;
    ss.ss_flags = 0;
    // ASan installs its own alternate stack and SEGV handler; ours only covers
    // what the sanitizer runtime leaves alone.
    (void)ss;
    struct sigaction sa;
    std::memset(&sa, 0, sizeof sa);
    sa.sa_handler = detail::on_signal;
    sigemptyset(&sa.sa_mask);
    sa.sa_flags = 0;
    sigaction(SIGPROF, &sa, nullptr);
#ifndef VF_FUZZ
    // (libFuzzer drives its own timeouts with SIGALRM; the wall-clock watchdog exists only in the
    // threaded rapidcheck harnesses)
    sigaction(SIGALRM, &sa, nullptr);
#endif
    sigaction(SIGABRT, &sa, nullptr);
#if !defined(__SANITIZE_ADDRESS__) && !defined(VF_ASAN)
    sa.sa_flags = SA_ONSTACK;
    sigaltstack(&ss, nullptr);
    sigaction(SIGSEGV, &sa, nullptr);
    sigaction(SIGBUS, &sa, nullptr);
    sigaction(SIGFPE, &sa, nullptr);
    sigaction(SIGILL, &sa, nullptr);
#endif
    std::set_terminate(detail::on_terminate);
    __sanitizer_set_death_callback(detail::on_sanitizer_death);
}

inline void set_current_case(const std::string& text)
{
    std::size_t n = std::min(text.size(), detail::BUF - 1);
    std::memcpy(detail::case_buf(), text.data(), n);
    detail::case_len() = n;
    detail::in_case() = 1;
}

inline void clear_current_case()
{
    detail::in_case() = 0;
}

// CPU-time budget for one case (process CPU time, immune to machine load)
inline void arm_watchdog(double cpu_seconds)
{
    struct itimerval it;
    std::memset(&it, 0, sizeof it);
    it.it_value.tv_sec = static_cast<time_t>(cpu_seconds);
    it.it_value.tv_usec = static_cast<suseconds_t>((cpu_seconds - it.it_value.tv_sec) * 1e6);
    setitimer(ITIMER_PROF, &it, nullptr);
}

// wall-clock budget, for cases whose failure mode is a deadlock (blocked threads use no CPU time); only
// harnesses with threads arm it, with a budget far above anything machine load can explain
inline bool& wall_watchdog_armed()
{
    static bool armed = false;
    return armed;
}

inline void arm_wall_watchdog(int seconds)
{
    wall_watchdog_armed() = true;
    struct itimerval it;
    std::memset(&it, 0, sizeof it);
    it.it_value.tv_sec = seconds;
    setitimer(ITIMER_REAL, &it, nullptr);
}

inline void disarm_watchdog()
{
    // (only if this harness armed it: libFuzzer keeps its own timers on ITIMER_REAL)
    if (wall_watchdog_armed())
    {
        wall_watchdog_armed() = false;
        struct itimerval real;
        std::memset(&real, 0, sizeof real);
        setitimer(ITIMER_REAL, &real, nullptr);
    }
    struct itimerval it;
    std::memset(&it, 0, sizeof it);
    setitimer(ITIMER_PROF, &it, nullptr);
}

inline void write_file(const std::string& path, const std::string& content)
{
    std::ofstream o(path, std::ios::binary | std::ios::trunc);
    o << content;
}

inline std::string read_file(const std::string& path)
{
    std::ifstream i(path, std::ios::binary);
    if (!i)
        throw std::runtime_error("cannot read " + path);
    std::ostringstream s;
    s << i.rdbuf();
    return s.str();
}

} // namespace vf
