// C18 — owning wrappers destroy exactly once and copy deeply.
//   mode q: histories over a pool of nitro::lang::quaint_ptr and a
//           std::vector<quaint_ptr>; payload objects of three distinct types
//           register themselves by address; ownership model.
//   mode o: histories over a pool of nitro::lang::optional<Tracked>;
//           std::optional<int> as reference, element live-set accounting.
#include "common/tracked.hpp"
#include "common/vcommon.hpp"

#include <nitro/lang/optional.hpp>
#include <nitro/lang/quaint_ptr.hpp>

#include <optional>

namespace h
{
// ------------------------------------------------------------ payload registry

struct PayloadInfo
{
    int id;
    char type;
    int destroyed = 0;
};

struct PReg
{
    std::map<const void*, PayloadInfo> live; // address -> payload
    std::map<int, char> created;             // id -> type
    std::map<int, int> destroyed;            // id -> count
    std::string error;
    int next_id = 1;

    void reset()
    {
        live.clear();
        created.clear();
        destroyed.clear();
        error.clear();
        next_id = 1;
    }
    int born(const void* p, char type)
    {
        int id = next_id++;
        if (live.count(p) && error.empty())
            error = "payload constructed over a live payload";
        live[p] = PayloadInfo{ id, type };
        created[id] = type;
        return id;
    }
    void died(const void* p, char as_type)
    {
        auto it = live.find(p);
        if (it == live.end())
        {
            if (error.empty())
                error = std::string("destructor of type P") + as_type +
                        " ran on an address that holds no live payload (double destruction?)";
            return;
        }
        if (it->second.type != as_type && error.empty())
            error = std::string("payload #") + std::to_string(it->second.id) + " created as P" +
                    it->second.type + " was destroyed by the destructor of P" + as_type;
        destroyed[it->second.id]++;
        live.erase(it);
    }
};

static PReg& preg()
{
    static PReg* r = new PReg;
    return *r;
}

struct PA
{
    int id;
    int value;
    explicit PA(int v) : value(v)
    {
        id = preg().born(this, 'A');
    }
    PA(const PA&) = delete;
    ~PA()
    {
        preg().died(this, 'A');
    }
};

struct PB
{
    int id;
    double pad[8];
    std::string text;
    int value;
    explicit PB(int v) : text(60, 'b'), value(v)
    {
        pad[0] = v;
        id = preg().born(this, 'B');
    }
    PB(const PB&) = delete;
    ~PB()
    {
        preg().died(this, 'B');
    }
};

struct VBase
{
    long base_field = 7;
    virtual ~VBase() = default;
};

struct PC : virtual VBase
{
    int id;
    int value;
    std::unique_ptr<int> heap;
    explicit PC(int v) : value(v), heap(new int(v))
    {
        id = preg().born(this, 'C');
    }
    PC(const PC&) = delete;
    ~PC() override
    {
        preg().died(this, 'C');
    }
};

// over-aligned payload: allocation and deallocation must both honour the alignment
struct alignas(64) PD
{
    int id;
    int value;
    char block[100];
    explicit PD(int v) : value(v)
    {
        id = preg().born(this, 'D');
        if (reinterpret_cast<std::uintptr_t>(this) % 64 != 0 && preg().error.empty())
            preg().error = "over-aligned payload constructed at a misaligned address";
    }
    PD(const PD&) = delete;
    ~PD()
    {
        preg().died(this, 'D');
    }
};

// a payload without any state of its own: no members, a non-throwing default constructor, and a
// destructor that matters all the same
struct PE
{
    PE() noexcept
    {
        preg().born(this, 'E');
    }
    PE(const PE&) = delete;
    ~PE()
    {
        preg().died(this, 'E');
    }
};

// a payload that knows its owner and, while it is being destroyed, tells the owner to let go
// (a "stop()" that the destructor calls, too)
struct PR
{
    nitro::lang::quaint_ptr* owner;
    int id;
    PR(nitro::lang::quaint_ptr* o, int) : owner(o)
    {
        id = preg().born(this, 'R');
    }
    PR(const PR&) = delete;
    ~PR()
    {
        nitro::lang::quaint_ptr* o = owner;
        owner = nullptr;
        if (o)
            o->reset();
        preg().died(this, 'R');
    }
};

// a payload that, while it is being destroyed, lets go of something else it knows about: another,
// non-empty owning pointer
struct PX
{
    nitro::lang::quaint_ptr* other;
    explicit PX(nitro::lang::quaint_ptr* o) : other(o)
    {
        preg().born(this, 'X');
    }
    PX(const PX&) = delete;
    ~PX()
    {
        if (other)
            other->reset();
        preg().died(this, 'X');
    }
};

// ------------------------------------------------------------------- case

enum QCode
{
    Q_MAKE = 0,
    Q_MOVE_CONSTRUCT,
    Q_MOVE_ASSIGN,
    Q_RESET,
    Q_ASSIGN_NULL,
    Q_PUSH_VEC,
    Q_POP_VEC,
    Q_CLEAR_VEC,
    Q_READ,
    Q_VEC_TO_SLOT,
    Q_SHRINK,
    Q_REENTRANT, // a payload whose destructor resets the pointer that owns it
    Q_SWAP,      // using std::swap; swap(slot a, slot b)  (what the standard algorithms call)
    Q_REVERSE,   // std::reverse / std::rotate over the vector
    Q_CHAIN,     // reset of a payload whose destructor resets another owning pointer
    Q_COUNT
};
enum OCode
{
    O_CONSTRUCT_EMPTY = 0,
    O_CONSTRUCT_LVALUE,
    O_CONSTRUCT_RVALUE,
    O_COPY_CONSTRUCT,
    O_COPY_ASSIGN,
    O_ASSIGN_LVALUE,
    O_ASSIGN_RVALUE,
    O_ASSIGN_EMPTY,
    O_READ,
    O_COUNT
};

struct Op
{
    int code = 0, a = 0, b = 0, v = 0;
    template <class A>
    void io(A& x)
    {
        x("code", code);
        x("a", a);
        x("b", b);
        x("v", v);
    }
};

struct Case
{
    std::string mode = "q";
    std::vector<Op> ops;
    int elem = 0; // optional: 0 element type with assignment, 1 copy-constructible only (const member)
    template <class A>
    void io(A& x)
    {
        x("mode", mode);
        x("ops", ops);
        x("elem", elem);
    }
};

const char* property_ids()
{
    return "C18";
}

static const char* qname(int c)
{
    static const char* n[] = { "make",     "move_construct", "move_assign", "reset",       "=nullptr",
                               "push_vec", "pop_vec",        "clear_vec",   "read",        "vec_to_slot",
                               "shrink_to_fit", "reset_of_a_payload_that_resets_its_owner", "swap", "reverse_or_rotate_vec",
                               "reset_of_a_payload_that_resets_another_pointer" };
    return c >= 0 && c < Q_COUNT ? n[c] : "?";
}
static const char* oname(int c)
{
    static const char* n[] = { "construct_empty", "construct(lvalue)", "construct(rvalue)",
                               "copy_construct",  "copy_assign",       "assign(lvalue)",
                               "assign(rvalue)",  "assign_empty",      "read" };
    return c >= 0 && c < O_COUNT ? n[c] : "?";
}

std::string describe(const Case& c)
{
    std::ostringstream o;
    o << (c.mode == "q" ? "quaint_ptr:" : c.elem == 2 ? "optional<bool>:" : c.elem ? "optional<type without assignment>:" : "optional:");
    for (auto& op : c.ops)
    {
        if (c.mode == "q")
        {
            o << " " << qname(op.code) << "(s" << op.a % 4;
            if (op.code == Q_MAKE)
                o << ",P" << (op.v % 7 == 0 ? 'E' : "ABCD"[op.b % 4]) << "," << op.v;
            if (op.code == Q_MOVE_CONSTRUCT || op.code == Q_MOVE_ASSIGN)
                o << "<-s" << op.b % 4;
            if (op.code == Q_VEC_TO_SLOT)
                o << "<-vec[" << op.b << "]";
            o << ")";
        }
        else
        {
            o << " " << oname(op.code) << "(o" << op.a % 4;
            if (op.code == O_COPY_CONSTRUCT || op.code == O_COPY_ASSIGN)
                o << "<-o" << op.b % 4;
            if (op.code == O_CONSTRUCT_LVALUE || op.code == O_CONSTRUCT_RVALUE ||
                op.code == O_ASSIGN_LVALUE || op.code == O_ASSIGN_RVALUE)
                o << "," << op.v;
            o << ")";
        }
    }
    return o.str();
}

Case generate(vf::Src& src, const std::string& mode)
{
    Case c;
    bool ex = mode.rfind("exo", 0) == 0; // exo<depth>
    c.mode = (mode == "o" || ex) ? "o" : "q";
    if (mode == "rc" || mode == "fuzz")
        c.mode = src.coin(50) ? "o" : "q";
    int n = ex ? std::atoi(mode.c_str() + 3) : src.irange(1, 40);
    if (c.mode == "o")
        c.elem = ex ? src.irange(0, 1) : static_cast<int>(src.weighted({ 50, 30, 20 }));
    for (int i = 0; i < n; ++i)
    {
        if (!ex && src.skip())
            continue; // lets the shrinker drop operations
        Op op;
        if (c.mode == "q")
        {
            op.code = static_cast<int>(src.weighted({ 25, 10, 18, 7, 5, 12, 4, 2, 8, 6, 3, 2, 6, 4, 2 }));
            op.a = src.irange(0, 3);
            op.b = src.irange(0, 3);
            op.v = src.irange(1, 100000);
        }
        else if (ex)
        {
            // small scope for the optional: two slots, all operations
            op.code = src.irange(0, O_COUNT - 1);
            op.a = src.irange(0, 1);
            op.b = src.irange(0, 1);
            op.v = i + 1;
        }
        else
        {
            op.code = static_cast<int>(src.weighted({ 6, 10, 10, 12, 22, 8, 8, 8, 16 }));
            op.a = src.irange(0, 3);
            op.b = src.irange(0, 3);
            op.v = src.irange(1, 100000);
        }
        c.ops.push_back(op);
    }
    return c;
}

// ------------------------------------------------------------------ quaint_ptr

struct Owned
{
    int id = 0; // 0 = empty
    char type = 0;
    int value = 0;
};

static std::string check_quaint(const Case& c, vf::Ctx& ctx)
{
    using nitro::lang::make_quaint;
    using nitro::lang::quaint_ptr;
    preg().reset();
    std::string err;
    bool nontrivial = false;
    {
        std::array<quaint_ptr, 4> slot;
        std::array<Owned, 4> ms;
        std::vector<quaint_ptr> vec;
        std::vector<Owned> mv;
        std::size_t step = 0;

        auto owned_ids = [&] {
            std::set<int> ids;
            for (auto& o : ms)
                if (o.id)
                    ids.insert(o.id);
            for (auto& o : mv)
                if (o.id)
                    ids.insert(o.id);
            return ids;
        };

        for (const Op& op : c.ops)
        {
            int a = op.a % 4, b = op.b % 4;
            std::string when = " (step " + std::to_string(step) + " " + qname(op.code) + " of " +
                               describe(c) + ")";
            ctx.tag(std::string("q:") + qname(op.code));
            switch (op.code)
            {
            case Q_MAKE:
            {
                if (ms[a].id)
                    nontrivial = true; // overwriting an owning pointer
                int before = preg().next_id;
                char type = op.v % 7 == 0 ? 'E' : "ABCD"[op.b % 4];
                if (type == 'E')
                    slot[a] = make_quaint<PE>();
                else if (type == 'A')
                    slot[a] = make_quaint<PA>(op.v);
                else if (type == 'B')
                    slot[a] = make_quaint<PB>(op.v);
                else if (type == 'C')
                    slot[a] = make_quaint<PC>(op.v);
                else
                    slot[a] = make_quaint<PD>(op.v);
                ms[a] = Owned{ before, type, op.v };
                break;
            }
            case Q_MOVE_CONSTRUCT:
            {
                if (a == b)
                    break;
                quaint_ptr tmp(std::move(slot[b]));
                if (slot[b] || slot[b].get() != nullptr)
                    err = "moved-from pointer is not empty" + when;
                Owned moved = ms[b];
                ms[b] = Owned();
                if (ms[a].id)
                    nontrivial = true;
                slot[a] = std::move(tmp);
                ms[a] = moved;
                break;
            }
            case Q_MOVE_ASSIGN:
                if (a == b)
                {
                    // a move assignment whose source and target coincide is still "a move": the
                    // pointer keeps what it owns (or stays empty) and the payload is destroyed
                    // exactly once, later
                    quaint_ptr& self = slot[b];
                    slot[a] = std::move(self);
                    ctx.tag("q:self-move-assign");
                    if (static_cast<bool>(slot[a]) != (ms[a].id != 0))
                        err = std::string("after a self move assignment the pointer is ") +
                              (slot[a] ? "owning" : "empty") + " but it was " +
                              (ms[a].id ? "owning" : "empty") + " before" + when;
                    break;
                }
                if (ms[a].id && ms[b].id)
                {
                    nontrivial = true;
                    ctx.tag("q:move-assign-onto-owner");
                }
                slot[a] = std::move(slot[b]);
                ms[a] = ms[b];
                ms[b] = Owned();
                if (slot[b] || slot[b].get() != nullptr)
                    err = "moved-from pointer is not empty" + when;
                break;
            case Q_RESET:
                slot[a].reset();
                ms[a] = Owned();
                if (slot[a] || slot[a].get() != nullptr)
                    err = "pointer is not empty after reset()" + when;
                break;
            case Q_ASSIGN_NULL:
                slot[a] = nullptr;
                ms[a] = Owned();
                if (slot[a] || slot[a].get() != nullptr)
                    err = "pointer is not empty after = nullptr" + when;
                break;
            case Q_PUSH_VEC:
            {
                std::size_t cap_before = vec.capacity();
                // now and then a whole batch of fresh payloads first: the vector grows through
                // several reallocations (sizes around powers of two)
                if (op.v % 16 == 0)
                {
                    int batch = 5 + op.v % 61;
                    for (int k = 0; k < batch; ++k)
                    {
                        int id = preg().next_id;
                        char type = "ABC"[(op.v + k) % 3];
                        if (type == 'A')
                            vec.push_back(make_quaint<PA>(k));
                        else if (type == 'B')
                            vec.push_back(make_quaint<PB>(k));
                        else
                            vec.push_back(make_quaint<PC>(k));
                        mv.push_back(Owned{ id, type, k });
                    }
                    ctx.tag("q:bulk-push");
                }
                vec.push_back(std::move(slot[a]));
                mv.push_back(ms[a]);
                ms[a] = Owned();
                if (slot[a] || slot[a].get() != nullptr)
                    err = "moved-from pointer is not empty" + when;
                if (vec.capacity() != cap_before)
                {
                    std::set<char> types;
                    for (auto& o : mv)
                        if (o.id)
                            types.insert(o.type);
                    if (types.size() >= 2)
                    {
                        nontrivial = true;
                        ctx.tag("q:realloc-with-mixed-types");
                    }
                }
                break;
            }
            case Q_POP_VEC:
                if (!vec.empty())
                {
                    vec.pop_back();
                    mv.pop_back();
                }
                break;
            case Q_CLEAR_VEC:
                vec.clear();
                mv.clear();
                break;
            case Q_SHRINK:
                vec.shrink_to_fit();
                break;
            case Q_VEC_TO_SLOT:
                if (!vec.empty())
                {
                    std::size_t i = static_cast<std::size_t>(op.b) % vec.size();
                    if (ms[a].id && mv[i].id)
                        nontrivial = true;
                    slot[a] = std::move(vec[i]);
                    ms[a] = mv[i];
                    mv[i] = Owned();
                    if (vec[i] || vec[i].get() != nullptr)
                        err = "moved-from pointer (vector element) is not empty" + when;
                }
                break;
            case Q_REENTRANT:
            {
                quaint_ptr q;
                q = make_quaint<PR>(&q, op.v);
                ctx.tag("q:payload-resets-its-owner");
                nontrivial = true;
                q.reset();
                if (q || q.get() != nullptr)
                    err = "pointer is not empty after reset()" + when;
                break;
            }
            case Q_SWAP:
            {
                if (a == b)
                    break;
                using std::swap;
                swap(slot[a], slot[b]); // unqualified: finds whatever the library provides for its type
                std::swap(ms[a], ms[b]);
                if (ms[a].id && ms[b].id && ms[a].type != ms[b].type)
                {
                    nontrivial = true;
                    ctx.tag("q:swap-of-two-payload-types");
                }
                break;
            }
            case Q_REVERSE:
                if (op.v % 2)
                {
                    std::reverse(vec.begin(), vec.end());
                    std::reverse(mv.begin(), mv.end());
                }
                else if (vec.size() >= 2)
                {
                    std::size_t mid = 1 + static_cast<std::size_t>(op.b) % (vec.size() - 1);
                    std::rotate(vec.begin(), vec.begin() + static_cast<std::ptrdiff_t>(mid), vec.end());
                    std::rotate(mv.begin(), mv.begin() + static_cast<std::ptrdiff_t>(mid), mv.end());
                }
                ctx.tag("q:reverse-or-rotate-vector");
                break;
            case Q_CHAIN:
            {
                quaint_ptr q = make_quaint<PA>(op.v);
                quaint_ptr p = make_quaint<PX>(&q);
                ctx.tag("q:payload-resets-another-pointer");
                nontrivial = true;
                p.reset();
                if (p || q || q.get() != nullptr)
                    err = std::string("after the reset of a payload whose destructor resets another pointer, ") +
                          (p ? "the pointer itself" : "the other pointer") + " is not empty" + when;
                break;
            }
            case Q_READ:
                if (ms[a].id)
                {
                    if (!slot[a] || slot[a].get() == nullptr)
                        err = "owning pointer reports empty" + when;
                    else if (ms[a].type == 'E')
                    {
                        // nothing to read; every object has an address of its own
                        for (int o = 0; o < 4; ++o)
                            if (o != a && ms[o].id && slot[o].get() == slot[a].get())
                                err = "two separately created payloads share one address" + when;
                    }
                    else
                    {
                        int v = ms[a].type == 'A'   ? slot[a].as<PA>().value
                                : ms[a].type == 'B' ? slot[a].as<PB>().value
                                : ms[a].type == 'C' ? slot[a].as<PC>().value
                                                    : slot[a].as<PD>().value;
                        int id = ms[a].type == 'A'   ? slot[a].as<PA>().id
                                 : ms[a].type == 'B' ? slot[a].as<PB>().id
                                 : ms[a].type == 'C' ? slot[a].as<PC>().id
                                                     : slot[a].as<PD>().id;
                        if (v != ms[a].value || id != ms[a].id)
                            err = "as<T>() reads payload #" + std::to_string(id) + " value " +
                                  std::to_string(v) + ", model owns #" + std::to_string(ms[a].id) +
                                  " value " + std::to_string(ms[a].value) + when;
                    }
                }
                else if (slot[a] || slot[a].get() != nullptr)
                    err = "empty pointer reports a payload" + when;
                break;
            default:
                break;
            }
            if (err.empty() && !preg().error.empty())
                err = preg().error + when;
            if (err.empty())
            {
                // live payloads == payloads the model still owns; everything else
                // was destroyed exactly once, by its own type (checked in died())
                std::set<int> live;
                for (auto& kv : preg().live)
                    live.insert(kv.second.id);
                std::set<int> own = owned_ids();
                if (live != own)
                {
                    std::string l, o;
                    for (int i : live)
                        l += std::to_string(i) + " ";
                    for (int i : own)
                        o += std::to_string(i) + " ";
                    err = "live payloads {" + l + "} differ from the payloads the model owns {" + o +
                          "}" + when;
                }
                for (auto& kv : preg().destroyed)
                    if (kv.second != 1)
                        err = "payload #" + std::to_string(kv.first) + " destroyed " +
                              std::to_string(kv.second) + " times" + when;
            }
            if (!err.empty())
                break;
            ++step;
        }
    }
    if (err.empty() && !preg().error.empty())
        err = preg().error + " (at the end of the history)";
    if (err.empty() && !preg().live.empty())
        err = std::to_string(preg().live.size()) + " payload(s) leaked after all owners were destroyed";
    if (err.empty())
        for (auto& kv : preg().created)
            if (preg().destroyed[kv.first] != 1)
                err = "payload #" + std::to_string(kv.first) + " destroyed " +
                      std::to_string(preg().destroyed[kv.first]) + " times";
    if (nontrivial)
        ctx.mark_nontrivial();
    preg().reset();
    return err;
}

// -------------------------------------------------------------------- optional

// copy- and move-constructible, but not assignable (a const member): the optional never needs
// assignment of T, only construction
struct NoAssign
{
    tr::Tracked t;
    const int tag = 7;
    explicit NoAssign(int v) : t(v)
    {
    }
};
static const tr::Tracked& tracked_of(const tr::Tracked& t)
{
    return t;
}
static const tr::Tracked& tracked_of(const NoAssign& n)
{
    return n.t;
}

template <class Elem>
static std::string check_optional(const Case& c, vf::Ctx& ctx)
{
    using Opt = nitro::lang::optional<Elem>;
    tr::reg().reset();
    std::string err;
    bool nontrivial = false;
    {
        std::array<std::unique_ptr<Opt>, 4> slot;
        std::array<std::optional<int>, 4> ref;
        std::array<bool, 4> exists{ { false, false, false, false } };
        std::size_t step = 0;
        for (const Op& op : c.ops)
        {
            int a = op.a % 4, b = op.b % 4;
            std::string when = " (step " + std::to_string(step) + " " + oname(op.code) + " of " +
                               describe(c) + ")";
            ctx.tag(std::string("o:") + oname(op.code));
            bool needs_target = !(op.code == O_CONSTRUCT_EMPTY || op.code == O_CONSTRUCT_LVALUE ||
                                  op.code == O_CONSTRUCT_RVALUE || op.code == O_COPY_CONSTRUCT);
            if (needs_target && !exists[a])
            {
                ++step;
                continue;
            }
            if ((op.code == O_COPY_CONSTRUCT || op.code == O_COPY_ASSIGN) && !exists[b])
            {
                ++step;
                continue;
            }
            try
            {
                switch (op.code)
                {
                case O_CONSTRUCT_EMPTY:
                    slot[a].reset(new Opt());
                    ref[a].reset();
                    exists[a] = true;
                    break;
                case O_CONSTRUCT_LVALUE:
                {
                    Elem t(op.v);
                    slot[a].reset(new Opt(t));
                    ref[a] = op.v;
                    exists[a] = true;
                    break;
                }
                case O_CONSTRUCT_RVALUE:
                    slot[a].reset(new Opt(Elem(op.v)));
                    ref[a] = op.v;
                    exists[a] = true;
                    break;
                case O_COPY_CONSTRUCT:
                {
                    if (a == b)
                        break;
                    const Opt& srcopt = *slot[b];
                    slot[a].reset(new Opt(srcopt));
                    ref[a] = ref[b];
                    exists[a] = true;
                    break;
                }
                case O_COPY_ASSIGN:
                {
                    if (ref[a].has_value() && !ref[b].has_value())
                    {
                        nontrivial = true;
                        ctx.tag("o:assign-empty-onto-engaged");
                    }
                    if (a == b)
                        ctx.tag("o:self-assign");
                    const Opt& srcopt = *slot[b];
                    Opt& r = (*slot[a] = srcopt);
                    if (&r != slot[a].get())
                        err = "copy assignment does not return *this" + when;
                    ref[a] = ref[b];
                    break;
                }
                case O_ASSIGN_LVALUE:
                {
                    Elem t(op.v);
                    *slot[a] = t;
                    ref[a] = op.v;
                    break;
                }
                case O_ASSIGN_RVALUE:
                    *slot[a] = Elem(op.v);
                    ref[a] = op.v;
                    break;
                case O_ASSIGN_EMPTY:
                    if (ref[a].has_value())
                    {
                        nontrivial = true;
                        ctx.tag("o:assign-empty-onto-engaged");
                    }
                    *slot[a] = Opt();
                    ref[a].reset();
                    break;
                case O_READ:
                    break;
                default:
                    break;
                }
            }
            catch (const std::exception& e)
            {
                err = std::string(oname(op.code)) + " raised: " + e.what() + when;
            }
            if (!err.empty())
                break;
            // observe every slot
            std::size_t engaged = 0;
            std::set<const void*> addrs;
            for (int s = 0; s < 4 && err.empty(); ++s)
            {
                if (!exists[s])
                    continue;
                const Opt& o = *slot[s];
                bool on = static_cast<bool>(o);
                if (on != ref[s].has_value())
                    err = std::string("o") + std::to_string(s) + " is " + (on ? "engaged" : "empty") +
                          " but the reference is " + (ref[s].has_value() ? "engaged" : "empty") + when;
                else if (on)
                {
                    ++engaged;
                    const Elem& el = *o;
                    const tr::Tracked& t = tracked_of(el);
                    if (t.value != *ref[s])
                        err = "o" + std::to_string(s) + " holds " + std::to_string(t.value) +
                              ", reference holds " + std::to_string(*ref[s]) + when;
                    if (t.moved_from)
                        err = "o" + std::to_string(s) + " holds a moved-from object" + when;
                    if (!addrs.insert(&el).second)
                        err = "two optionals alias the same object" + when;
                }
                else
                {
                    bool raised = false;
                    try
                    {
                        (void)*o;
                    }
                    catch (const std::exception&)
                    {
                        raised = true;
                    }
                    if (!raised)
                        err = "reading the empty o" + std::to_string(s) + " did not raise" + when;
                }
            }
            if (err.empty() && !tr::reg().error.empty())
                err = tr::reg().error + when;
            if (err.empty() && tr::reg().live.size() != engaged)
                err = std::to_string(tr::reg().live.size()) + " element objects alive, but " +
                      std::to_string(engaged) + " optionals are engaged" + when;
            if (!err.empty())
                break;
            ++step;
        }
    }
    if (err.empty() && !tr::reg().error.empty())
        err = tr::reg().error + " (at the end of the history)";
    if (err.empty() && !tr::reg().live.empty())
        err = std::to_string(tr::reg().live.size()) + " element object(s) leaked";
    if (nontrivial)
        ctx.mark_nontrivial();
    tr::reg().reset();
    return err;
}

// optional<bool>: the one element type an optional itself converts to. Sources are handed over as
// const lvalues, non-const lvalues and temporaries.
static std::string check_optional_bool(const Case& c, vf::Ctx& ctx)
{
    using Opt = nitro::lang::optional<bool>;
    std::array<std::unique_ptr<Opt>, 4> slot;
    std::array<std::optional<bool>, 4> ref;
    std::size_t step = 0;
    for (const Op& op : c.ops)
    {
        int a = op.a % 4, b = op.b % 4;
        bool v = op.v % 2 != 0;
        std::string when = " (optional<bool>, step " + std::to_string(step) + " " + oname(op.code) + " of " + describe(c) + ")";
        bool needs_target = !(op.code == O_CONSTRUCT_EMPTY || op.code == O_CONSTRUCT_LVALUE ||
                              op.code == O_CONSTRUCT_RVALUE || op.code == O_COPY_CONSTRUCT);
        if ((needs_target && !slot[a]) || ((op.code == O_COPY_CONSTRUCT || op.code == O_COPY_ASSIGN) && !slot[b]))
        {
            ++step;
            continue;
        }
        switch (op.code)
        {
        case O_CONSTRUCT_EMPTY:
            slot[a].reset(new Opt());
            ref[a].reset();
            break;
        case O_CONSTRUCT_LVALUE:
            slot[a].reset(new Opt(v));
            ref[a] = v;
            break;
        case O_CONSTRUCT_RVALUE:
            slot[a].reset(new Opt(bool(v)));
            ref[a] = v;
            break;
        case O_COPY_CONSTRUCT:
            if (a == b)
                break;
            if (op.v % 3 == 0)
            {
                const Opt& s = *slot[b];
                slot[a].reset(new Opt(s));
            }
            else if (op.v % 3 == 1)
            {
                Opt& s = *slot[b]; // a non-const lvalue
                slot[a].reset(new Opt(s));
            }
            else
            {
                Opt tmp(static_cast<const Opt&>(*slot[b]));
                slot[a].reset(new Opt(std::move(tmp))); // a temporary
            }
            ref[a] = ref[b];
            break;
        case O_COPY_ASSIGN:
            if (op.v % 3 == 0)
            {
                const Opt& s = *slot[b];
                *slot[a] = s;
            }
            else if (op.v % 3 == 1)
            {
                Opt& s = *slot[b];
                *slot[a] = s;
            }
            else
            {
                Opt tmp(static_cast<const Opt&>(*slot[b]));
                *slot[a] = std::move(tmp);
            }
            ref[a] = ref[b];
            break;
        case O_ASSIGN_LVALUE:
        case O_ASSIGN_RVALUE:
            *slot[a] = v;
            ref[a] = v;
            break;
        case O_ASSIGN_EMPTY:
            *slot[a] = Opt();
            ref[a].reset();
            break;
        default:
            break;
        }
        for (int s = 0; s < 4; ++s)
        {
            if (!slot[s])
                continue;
            const Opt& o = *slot[s];
            if (static_cast<bool>(o) != ref[s].has_value())
                return std::string("o") + std::to_string(s) + " is " + (o ? "engaged" : "empty") + " but the reference is " +
                       (ref[s].has_value() ? "engaged" : "empty") + when;
            if (o && *o != *ref[s])
                return "o" + std::to_string(s) + " holds " + (*o ? "true" : "false") + ", the reference holds " +
                       (*ref[s] ? "true" : "false") + when;
            if (!o)
            {
                bool raised = false;
                try
                {
                    (void)*o;
                }
                catch (const std::exception&)
                {
                    raised = true;
                }
                if (!raised)
                    return "reading the empty o" + std::to_string(s) + " did not raise" + when;
            }
        }
        ++step;
    }
    ctx.mark_nontrivial();
    return "";
}

std::string check(const Case& c, vf::Ctx& ctx)
{
    ctx.tag("wrapper:" + c.mode);
    if (c.mode != "q" && c.elem == 2)
    {
        ctx.tag("o:element-bool");
        return check_optional_bool(c, ctx);
    }
    if (c.mode != "q" && c.elem)
        ctx.tag("o:element-without-assignment");
#ifdef VF_NO_OPTIONAL_NOASSIGN
    // this tree's optional does not compile for such a type (compile probe): the ordinary element instead
    return c.mode == "q" ? check_quaint(c, ctx) : check_optional<tr::Tracked>(c, ctx);
#else
    return c.mode == "q" ? check_quaint(c, ctx)
                         : c.elem ? check_optional<NoAssign>(c, ctx) : check_optional<tr::Tracked>(c, ctx);
#endif
}
} // namespace h

#include "common/vmain.hpp"
