/* tiny test library B for the C19 dl histories: has one more symbol than A */
int vf_value(void) { return 22; }
int vf_other(void) { return 122; }
