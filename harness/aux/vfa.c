/* tiny test library A for the C19 dl histories */
int vf_value(void) { return 11; }
