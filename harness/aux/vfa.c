/* tiny test library A for the C19 dl histories */
int vf_value(void) { return 11; }
/* an exported absolute symbol with the value 0: dlsym() yields NULL without an error */
__asm__(".globl vf_null_sym\n.set vf_null_sym, 0\n");
