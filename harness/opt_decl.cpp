// C13 — declarations stay unambiguous: one meaning per long name and per
// letter. Histories of declaration calls on a heap-allocated parser and its
// groups, interleaved with moving the parser object (old object destroyed or
// kept), then a parse that gives every declared entry a distinct value through
// its long name and its letter. Oracle: declaration model (name -> kind, group,
// object address; letter table).
#include "common/vcommon.hpp"

#include <nitro/options/parser.hpp>

#include <memory>

namespace h
{
enum Code
{
    DECL = 0,   // option/multi_option/toggle(name) on a group
    SHORT,      // short_name(letter) on a declared entry
    ENV,        // env(name)
    METAVAR,    // metavar(text)
    DEFAULT,    // default_value(...)
    GROUP,      // parser.group(name)
    MOVE,       // move the parser (old one destroyed or kept alive)
    PARSE,      // parse in the middle of the history (then the history goes on)
    REVERSE,    // allow_reverse() on a declared toggle
    CODE_COUNT
};

struct Op
{
    int code = 0;
    int kind = 0;  // 0 option, 1 multi, 2 toggle
    int name = 0;  // index into names
    int group = 0; // 0 default (via parser), 1 default (via group()), 2 "A", 3 "B",
                   // 4/5/6: default/"A"/"B" through a group reference obtained earlier and held
    int arg = 0;   // letter index / env index / metavar index / keep_old
    template <class A>
    void io(A& a)
    {
        a("code", code);
        a("kind", kind);
        a("name", name);
        a("group", group);
        a("arg", arg);
    }
};

struct Case
{
    std::vector<Op> ops;
    template <class A>
    void io(A& a)
    {
        a("ops", ops);
    }
};

// "--a": a name spelled with leading dashes is a different (and unreachable) name, not "a"
// "no-a": as a long spelling it belongs to the reversal of a toggle "a", so it is never spelled in the final
// parse - but it is a name like any other for the declaration rules
static const char* NAMES[] = { "a", "b", "c", "--a", "no-a" };
static const int NNAMES = 5;
static const char* LETTERS[] = { "x", "y", "", "xy", "z", "\xe4" };
static const char* ENVS[] = { "NITRO_VERIF_D1", "NITRO_VERIF_D2" };
static const char* METAVARS[] = { "FILE", "", "N" };
// "arguments" is the heading of the default group: a named group of that name is a group of its own
static const char* GROUPS[] = { "__default__", "__default__", "A", "B", "__default__", "A", "B", "arguments" };
static const char* KINDS[] = { "option", "multi_option", "toggle" };

const char* property_ids()
{
    return "C13";
}

std::string describe(const Case& c)
{
    std::ostringstream o;
    for (auto& op : c.ops)
    {
        switch (op.code)
        {
        case DECL:
            o << (op.group % 8 == 0 ? "parser" : std::string(op.group % 8 >= 4 && op.group % 8 <= 6 ? "held-group(" : "group(") + GROUPS[op.group % 8] + ")") << "."
              << KINDS[op.kind % 3] << "(" << NAMES[op.name % NNAMES] << ") ";
            break;
        case SHORT:
            o << NAMES[op.name % NNAMES] << ".short_name(\"" << LETTERS[op.arg % 6] << "\") ";
            break;
        case ENV:
            o << NAMES[op.name % NNAMES] << ".env(" << ENVS[op.arg % 2] << ") ";
            break;
        case METAVAR:
            o << NAMES[op.name % NNAMES] << ".metavar(\"" << METAVARS[op.arg % 3] << "\") ";
            break;
        case DEFAULT:
            o << NAMES[op.name % NNAMES] << ".default_value ";
            break;
        case GROUP:
            o << "group(" << GROUPS[2 + op.arg % 2] << ") ";
            break;
        case MOVE:
            o << ((op.arg / 2) % 2 ? "MOVE-ASSIGN-PARSER" : "MOVE-PARSER")
              << (op.arg % 2 ? "(keep old) " : "(destroy old) ");
            break;
        case PARSE:
            o << "parse ";
            break;
        case REVERSE:
            o << NAMES[op.name % NNAMES] << ".allow_reverse() ";
            break;
        }
    }
    o << "parse";
    return o.str();
}

Case generate(vf::Src& src, const std::string& mode)
{
    Case c;
    bool ex = mode.rfind("ex", 0) == 0;
    int n = ex ? std::atoi(mode.c_str() + 2) : src.irange(1, 20);
    for (int i = 0; i < n; ++i)
    {
        if (!ex && src.skip())
            continue; // lets the shrinker drop operations
        Op op;
        if (ex)
        {
            // small scope: declarations over 2 names x 3 kinds x 2 groups, two letters, moves
            int w = src.irange(0, 2);
            op.code = w == 0 ? DECL : w == 1 ? SHORT : MOVE;
            op.kind = op.code == DECL ? src.irange(0, 2) : 0;
            op.name = op.code == MOVE ? 0 : src.irange(0, 1);
            op.group = op.code == DECL ? (src.irange(0, 1) ? 2 : 0) : 0;
            op.arg = op.code == SHORT ? src.irange(0, 1) : (op.code == MOVE ? src.irange(0, 3) : 0);
        }
        else
        {
            op.code = static_cast<int>(src.weighted({ 38, 27, 5, 4, 4, 6, 17, 8, 5 }));
            op.kind = src.irange(0, 2);
            op.name = src.coin(88) ? src.irange(0, 2) : src.irange(3, 4);
            op.group = src.coin(75) ? src.irange(0, 3) : src.irange(4, 7);
            op.arg = src.irange(0, 5);
            if (op.code == SHORT) // favour collisions on the letters x and y (and a high-bit byte)
                op.arg = static_cast<int>(src.weighted({ 34, 26, 8, 8, 12, 12 }));
        }
        c.ops.push_back(op);
    }
    return c;
}

struct Entry
{
    int kind;
    int group; // normalised: 0 default, 2 A, 3 B
    void* addr;
    std::string short_;
    std::string env;
    bool has_default = false;
};

std::string check(const Case& c, vf::Ctx& ctx)
{
    using namespace nitro::options;
    for (auto e : ENVS)
        ::unsetenv(e);
    auto p = std::make_unique<parser>("prog", "about");
    std::vector<std::unique_ptr<parser>> graveyard;
    std::map<std::string, Entry> model;
    nitro::options::group* held[3] = { nullptr, nullptr, nullptr }; // default, A, B
    bool moved = false, decl_after_move = false, collision = false;
    std::size_t step = 0;

    auto where = [&](const Op&) { return " (step " + std::to_string(step) + " of: " + describe(c) + ")"; };

    // every declared entry gets a distinct value through its long name and (where it has one) its
    // letter; a parser in which two entries share a letter must refuse
    bool tagged_shared = false;
    auto parse_now = [&](const std::string& desc) -> std::string {
        std::map<std::string, int> letter_use;
        for (auto& kv : model)
            if (!kv.second.short_.empty())
                letter_use[kv.second.short_]++;
        bool shared_letter = false;
        for (auto& kv : letter_use)
            if (kv.second > 1)
                shared_letter = true;
        if (shared_letter && !tagged_shared)
        {
            tagged_shared = true;
            ctx.tag("parse:shared-letter");
        }
        std::vector<std::string> argv = { "prog" };
        std::map<std::string, std::string> want_opt;
        std::map<std::string, std::vector<std::string>> want_multi;
        std::map<std::string, int> want_tog;
        int serial = 0;
        for (auto& kv : model)
        {
            const std::string& n = kv.first;
            const Entry& e = kv.second;
            ++serial;
            if (n[0] == '-' || n.compare(0, 3, "no-") == 0)
                continue; // not spelled on the command line; its letter, if any, still counts
            if (e.kind == 0)
            {
                std::string v = "val-" + n;
                if (!e.short_.empty() && serial % 2)
                    argv.push_back("-" + e.short_ + "=" + v);
                else
                    argv.push_back("--" + n + "=" + v);
                want_opt[n] = v;
            }
            else if (e.kind == 1)
            {
                argv.push_back("--" + n + "=L-" + n);
                want_multi[n].push_back("L-" + n);
                if (!e.short_.empty())
                {
                    argv.push_back("-" + e.short_ + "=S-" + n);
                    want_multi[n].push_back("S-" + n);
                }
            }
            else
            {
                argv.push_back("--" + n);
                int k = 1;
                if (!e.short_.empty())
                {
                    argv.push_back("-" + std::string(static_cast<std::size_t>(serial + 1), e.short_[0]));
                    k += serial + 1;
                }
                want_tog[n] = k;
            }
        }
        std::vector<const char*> av;
        for (auto& s : argv)
            av.push_back(s.c_str());
        try
        {
            auto args = p->parse(static_cast<int>(av.size()), av.data());
            if (shared_letter)
                return "a parser in which two options share a letter parsed" + desc;
            for (auto& kv : want_opt)
                if (args.get(kv.first) != kv.second)
                    return "option '" + kv.first + "' received " + vf::vis(args.get(kv.first)) + ", expected " +
                           vf::vis(kv.second) + desc;
            for (auto& kv : want_multi)
                if (args.get_all(kv.first) != kv.second)
                    return "multi-option '" + kv.first + "' received the wrong list" + desc;
            for (auto& kv : want_tog)
                if (args.given(kv.first) != kv.second)
                    return "toggle '" + kv.first + "' counted " + std::to_string(args.given(kv.first)) +
                           ", expected " + std::to_string(kv.second) + desc;
        }
        catch (const parser_error& e)
        {
            if (!shared_letter)
                return std::string("parse raised the developer error although no letter is shared: ") +
                       e.what() + desc;
        }
        catch (const std::exception& e)
        {
            return std::string("parse raised ") + e.what() +
                   (shared_letter ? " instead of the developer error for a shared letter" : "") + desc;
        }
        return "";
    };

    for (const Op& op : c.ops)
    {
        std::string name = NAMES[op.name % NNAMES];
        int g = op.group % 8;
        const bool via_held = g >= 4 && g <= 6;
        if (via_held)
            g = g == 4 ? 1 : g - 3; // 4 -> default, 5 -> A, 6 -> B
        int gnorm = g <= 1 ? 0 : g;
        bool threw_parser_error = false;
        std::string other_exception;
        switch (op.code)
        {
        case DECL:
        {
            int kind = op.kind % 3;
            void* addr = nullptr;
            try
            {
                if (g == 0)
                {
                    if (kind == 0)
                        addr = &p->option(name, "d");
                    else if (kind == 1)
                        addr = &p->multi_option(name, "d");
                    else
                        addr = &p->toggle(name, "d");
                }
                else
                {
                    // either ask the current parser for the group, or use a reference that was
                    // obtained at an earlier point of the history (it stays valid across moves)
                    nitro::options::group* unheld = nullptr;
                    nitro::options::group*& slot_ref = g == 7 ? unheld : held[g == 1 ? 0 : g - 1];
                    if (g == 7)
                        ctx.tag("decl:group-named-like-the-default-heading");
                    if (!via_held || slot_ref == nullptr)
                        slot_ref = g == 1 ? &p->group() : &p->group(GROUPS[g], "");
                    else
                        ctx.tag("decl:through-held-group-reference");
                    auto& grp = *slot_ref;
                    if (kind == 0)
                        addr = &grp.option(name, "d");
                    else if (kind == 1)
                        addr = &grp.multi_option(name, "d");
                    else
                        addr = &grp.toggle(name, "d");
                }
            }
            catch (const parser_error&)
            {
                threw_parser_error = true;
            }
            catch (const std::exception& e)
            {
                other_exception = e.what();
            }
            if (!other_exception.empty())
                return "declaration raised something else than the developer error: " + other_exception +
                       where(op);
            if (moved)
                decl_after_move = true;
            auto it = model.find(name);
            if (it == model.end())
            {
                if (threw_parser_error)
                    return std::string("first declaration of '") + name + "' was rejected" + where(op);
                model[name] = Entry{ kind, gnorm, addr, "", "", false };
                // a name with leading dashes can never be spelled on a command line: it must not
                // be required
                if (name[0] == '-' || name.compare(0, 3, "no-") == 0)
                {
                    ctx.tag(name[0] == '-' ? "decl:dashed-name" : "decl:no-name");
                    if (kind == 0)
                        static_cast<option*>(addr)->optional();
                    else if (kind == 1)
                        static_cast<multi_option*>(addr)->optional();
                }
            }
            else if (it->second.kind == kind && it->second.group == gnorm)
            {
                ctx.tag("decl:same-again");
                if (threw_parser_error)
                    return std::string("declaring '") + name +
                           "' again with the same kind in the same group was rejected" + where(op);
                if (addr != it->second.addr)
                    return std::string("declaring '") + name +
                           "' again with the same kind and group returned a different object" + where(op);
            }
            else
            {
                collision = true;
                ctx.tag(it->second.kind != kind ? "decl:collision-other-kind" : "decl:collision-other-group");
                if (!threw_parser_error)
                    return std::string("re-declaring '") + name + "' as " + KINDS[kind] + " in group " +
                           GROUPS[g] + " was accepted although it is declared as " +
                           KINDS[it->second.kind] + " in group " + GROUPS[it->second.group ? it->second.group : 0] +
                           where(op);
            }
            break;
        }
        case SHORT:
        case ENV:
        case METAVAR:
        case DEFAULT:
        {
            auto it = model.find(name);
            if (it == model.end())
                break; // nothing declared under that name yet
            Entry& e = it->second;
            std::string letter = LETTERS[op.arg % 6];
            try
            {
                auto apply = [&](auto* o) {
                    if (op.code == SHORT)
                        o->short_name(letter);
                    else if (op.code == ENV)
                        o->env(ENVS[op.arg % 2]);
                    else if (op.code == METAVAR)
                        o->metavar(METAVARS[op.arg % 3]);
                };
                if (e.kind == 0)
                {
                    auto* o = static_cast<option*>(e.addr);
                    apply(o);
                    if (op.code == DEFAULT)
                        o->default_value("dflt");
                }
                else if (e.kind == 1)
                {
                    auto* o = static_cast<multi_option*>(e.addr);
                    apply(o);
                    if (op.code == DEFAULT)
                        o->default_value({ "d1" });
                }
                else
                {
                    auto* o = static_cast<toggle*>(e.addr);
                    apply(o);
                    if (op.code == DEFAULT)
                        o->default_value(true);
                }
            }
            catch (const parser_error&)
            {
                threw_parser_error = true;
            }
            catch (const std::exception& ex)
            {
                return std::string("setter raised something else than the developer error: ") + ex.what() +
                       where(op);
            }
            if (op.code == SHORT)
            {
                bool ok = letter.size() == 1 && (e.short_.empty() || e.short_ == letter);
                if (!e.short_.empty() && e.short_ != letter)
                    ctx.tag("short:change-attempt");
                if (letter.size() != 1)
                    ctx.tag("short:not-one-char");
                if (ok && threw_parser_error)
                    return "short_name(\"" + letter + "\") on '" + name + "' was rejected" + where(op);
                if (!ok && !threw_parser_error)
                    return "short_name(\"" + letter + "\") on '" + name + "' (current \"" + e.short_ +
                           "\") was accepted" + where(op);
                if (ok)
                    e.short_ = letter;
            }
            else if (op.code == ENV)
            {
                // redefinition rules of env are not part of the statement: either outcome
                if (!threw_parser_error)
                    e.env = ENVS[op.arg % 2];
            }
            else if (op.code == DEFAULT && !threw_parser_error)
                e.has_default = true;
            break;
        }
        case GROUP:
            try
            {
                p->group(GROUPS[2 + op.arg % 2], "desc");
            }
            catch (const std::exception& ex)
            {
                return std::string("group() raised: ") + ex.what() + where(op);
            }
            break;
        case REVERSE:
        {
            auto it = model.find(name);
            if (it != model.end() && it->second.kind == 2)
            {
                static_cast<toggle*>(it->second.addr)->allow_reverse();
                ctx.tag("toggle:reversible");
            }
            break;
        }
        case PARSE:
        {
            ctx.tag("parse:in-the-middle-of-the-history");
            std::string m = parse_now(where(op));
            if (!m.empty())
                return m;
            break;
        }
        case MOVE:
        {
            std::unique_ptr<parser> fresh;
            if ((op.arg / 2) % 2)
            {
                // move ASSIGNMENT onto an existing parser that has declarations of its own
                fresh = std::make_unique<parser>("other", "about");
                fresh->option("zz-own", "d").optional();
                fresh->group("A", "old A").toggle("zz-own-toggle", "d");
                *fresh = std::move(*p);
                ctx.tag("move:assignment");
            }
            else
                fresh = std::make_unique<parser>(std::move(*p));
            if (op.arg % 2)
                graveyard.push_back(std::move(p)); // old object stays alive
            p = std::move(fresh);                  // else: old object destroyed here
            moved = true;
            ctx.tag(op.arg % 2 ? "move:old-kept" : "move:old-destroyed");
            break;
        }
        }
        ++step;
    }

    // ---- final parse: every declared entry gets a distinct value through its
    // long name and (where it has one) its letter
    std::map<std::string, int> letter_use;
    for (auto& kv : model)
        if (!kv.second.short_.empty())
            letter_use[kv.second.short_]++;
    bool shared_letter = false;
    for (auto& kv : letter_use)
        if (kv.second > 1)
            shared_letter = true;
    if (decl_after_move)
        ctx.tag("decl:after-move");
    if (collision || shared_letter || decl_after_move)
        ctx.mark_nontrivial();

    return parse_now(" after: " + describe(c));
}
} // namespace h

#include "common/vmain.hpp"
