// C19 — environment and dlopen wrappers report faithfully and keep libraries
// mapped.
//   mode env: nitro::env::get against a map model (set / set empty / unset,
//             both overloads, arbitrary NUL-free bytes)
//   mode dl : histories of open / load / copy / assign / call / destroy over a
//             pool of nitro::dl::dl and nitro::dl::symbol objects; every loader
//             call is observed through the linker (--wrap=dlopen,dlclose,dlsym,
//             dlerror) and compared with a reference-count model per open event.
#include "common/vcommon.hpp"

#include <nitro/dl/dl.hpp>
#include <nitro/env/get.hpp>

#include <dlfcn.h>
#include <libgen.h>
#include <unistd.h>

extern "C"
{
    void* __real_dlopen(const char*, int);
    int __real_dlclose(void*);
    void* __real_dlsym(void*, const char*);
    char* __real_dlerror(void);
    // exported from the harness binary itself (dl::self)
    __attribute__((visibility("default"), used)) int vf_self_value()
    {
        return 77;
    }
}

namespace lw
{
struct Log
{
    std::map<void*, long> outstanding; // handle -> successful opens minus closes
    std::vector<std::string> errors;
    std::string last_dlerror; // last non-null string the real dlerror() returned
    bool dlerror_was_null = true;
    long opens = 0, closes = 0, failed_opens = 0, syms = 0;
    void reset()
    {
        outstanding.clear();
        errors.clear();
        last_dlerror.clear();
        dlerror_was_null = true;
        opens = closes = failed_opens = syms = 0;
    }
};
static Log& log()
{
    static Log* l = new Log;
    return *l;
}
// Constant-initialised: the wrappers below may be entered before any dynamic
// initialisation has run - with clang's statically linked sanitizer runtime even the
// runtime's own start-up calls to dlsym() are redirected here - and must not allocate then.
static bool active = false;
} // namespace lw

extern "C"
{
    void* __wrap_dlopen(const char* file, int mode)
    {
        void* h = __real_dlopen(file, mode);
        if (lw::active)
        {
            if (h)
            {
                lw::log().outstanding[h]++;
                lw::log().opens++;
            }
            else
                lw::log().failed_opens++;
        }
        return h;
    }
    int __wrap_dlclose(void* h)
    {
        if (lw::active)
        {
            lw::log().closes++;
            if (h == nullptr)
                lw::log().errors.push_back("dlclose(NULL) was called");
            else if (lw::log().outstanding[h] <= 0)
                lw::log().errors.push_back("dlclose on a handle that is not open (closed twice)");
            else
                lw::log().outstanding[h]--;
        }
        if (h == nullptr)
            return -1;
        return __real_dlclose(h);
    }
    void* __wrap_dlsym(void* h, const char* name)
    {
        if (lw::active)
            lw::log().syms++;
        return __real_dlsym(h, name);
    }
    char* __wrap_dlerror(void)
    {
        char* e = __real_dlerror();
        if (lw::active)
        {
            lw::log().dlerror_was_null = e == nullptr;
            if (e)
                lw::log().last_dlerror = e;
        }
        return e;
    }
}

namespace h
{
enum Code
{
    OPEN = 0,
    LOAD,
    COPY,
    ASSIGN,
    CALL,
    DESTROY,
    LOAD_TEMP, // dl(path).load<T>(missing): the failed lookup unwinds through the temporary dl
    CODE_COUNT
};

struct Op
{
    int code = 0, a = 0, b = 0, arg = 0;
    template <class A>
    void io(A& x)
    {
        x("code", code);
        x("a", a);
        x("b", b);
        x("arg", arg);
    }
};

struct Case
{
    std::string mode = "env";
    // env
    std::string name, value, dflt;
    int state = 0; // 0 unset, 1 set empty, 2 set to value
    int neighbour = 0; // != 0: variables whose names start with / end in the name are set, too
    // dl
    std::vector<Op> ops;
    template <class A>
    void io(A& a)
    {
        a("mode", mode);
        a("name", name);
        a("value", value);
        a("dflt", dflt);
        a("state", state);
        a("neighbour", neighbour);
        a("ops", ops);
    }
};

const char* property_ids()
{
    return "C19";
}

static const int NSLOT = 6;
static const char* LIBS[] = { "libvfa.so", "libvfb.so", "libvf_missing.so", "<self>" };
// a second spelling of "missing": a path with a colon and a blank in it
static const char* MISSING_ODD = "no such dir: plugins/libvf x.so";
// the last two are defined in the process (the harness binary, libstdc++) but in none of the libraries
// ... "vf: missing" does not exist anywhere (a name with a colon and a blank); "vf_null_sym" exists in library A
// with the value 0 (an absolute symbol): it can be looked up and held, not called
static const char* SYMS[] = { "vf_value", "vf_other", "vf_not_defined", "vf_self_value", "_ZSt9terminatev",
                              "vf: missing", "vf_null_sym" };
static const int NSYM = 7;

std::string describe(const Case& c)
{
    std::ostringstream o;
    if (c.mode == "env")
    {
        o << "env::get(" << vf::vis("NITRO_VERIF_" + c.name, 60) << ") with the variable "
          << (c.state == 0 ? "unset" : c.state == 1 ? "set to the empty string" : "set to " + vf::vis(c.value, 60))
          << ", default " << vf::vis(c.dflt, 30)
          << (c.neighbour ? ", variables with longer names around it" : "");
        return o.str();
    }
    o << "dl:";
    for (auto& op : c.ops)
    {
        switch (op.code)
        {
        case OPEN:
            o << " open(s" << op.a % NSLOT << "," << LIBS[op.arg % 4] << (op.b / NSLOT % 2 ? ", exception read late" : "") << ")";
            break;
        case LOAD:
            o << " load(s" << op.a % NSLOT << "<-s" << op.b % NSLOT << "," << SYMS[op.arg % NSYM]
              << (op.b / NSLOT % 2 ? ", exception read late" : "") << ")";
            break;
        case LOAD_TEMP:
            o << " dl(" << LIBS[op.arg % 2] << ").load(" << SYMS[2 + op.a % 3] << ")";
            break;
        case COPY:
            o << " copy(s" << op.a % NSLOT << "<-s" << op.b % NSLOT << ")";
            break;
        case ASSIGN:
            o << " assign(s" << op.a % NSLOT << "=s" << op.b % NSLOT << ")";
            break;
        case CALL:
            o << " call(s" << op.a % NSLOT << ")";
            break;
        case DESTROY:
            o << " destroy(s" << op.a % NSLOT << ")";
            break;
        }
    }
    return o.str();
}

Case generate(vf::Src& src, const std::string& mode)
{
    Case c;
    c.mode = mode == "dl" ? "dl" : (mode == "env" ? "env" : (src.coin(50) ? "dl" : "env"));
    if (c.mode == "env")
    {
        auto bytes = [&](int lo, int hi, bool no_eq) {
            std::string s = src.bytes_nonul(lo, hi);
            if (no_eq)
                for (auto& ch : s)
                    if (ch == '=')
                        ch = '_';
            return s;
        };
        c.name = src.coin(70) ? src.str("ABCxyz_09-", 1, 8) : bytes(1, 12, true);
        c.state = static_cast<int>(src.weighted({ 30, 25, 45 }));
        static const std::vector<std::string> vals = { "v", " ", "=", "a=b", "-5", "--x", ";", "\xff\xfe",
                                                       "two words", "0", "false", "\n" };
        c.value = src.coin(60) ? src.pick(vals) : bytes(1, 40, false);
        // long values: the C library imposes no limit on the length of a value
        if (src.coin(8))
        {
            static const int lens[] = { 4094, 4095, 4096, 4097, 8192, 70000 };
            c.value = std::string(static_cast<std::size_t>(lens[src.index(6)]), static_cast<char>('a' + src.irange(0, 5)));
            c.value[c.value.size() / 2] = '=';
        }
        // a value the library's own source text mentions
        if (!vf::source_literals().empty() && src.coin(12))
        {
            c.value = src.pick(vf::source_literals());
            c.value.erase(std::remove(c.value.begin(), c.value.end(), '\0'), c.value.end());
        }
        if (c.value.empty())
            c.value = "v";
        c.dflt = src.coin(50) ? "" : (src.coin(50) ? "dflt" : bytes(0, 8, false));
        c.neighbour = src.coin(25) ? 1 : 0;
        return c;
    }
    int n = src.irange(1, 30);
    for (int i = 0; i < n; ++i)
    {
        if (src.skip())
            continue; // lets the shrinker drop operations
        Op op;
        op.code = static_cast<int>(src.weighted({ 25, 25, 15, 8, 14, 13, 3 }));
        op.a = src.irange(0, NSLOT - 1);
        op.b = src.irange(0, NSLOT - 1);
        if (src.coin(40))
            op.b += NSLOT; // a failure of this operation is looked at later, not in the handler
        if (src.coin(40))
            op.b += 2 * NSLOT; // the missing library is spelled with a colon and a blank in its path
        if (op.code == OPEN)
            op.arg = static_cast<int>(src.weighted({ 35, 30, 20, 15 }));
        else if (op.code == LOAD)
            op.arg = static_cast<int>(src.weighted({ 44, 26, 8, 7, 5, 5, 5 }));
        else if (op.code == LOAD_TEMP)
            op.arg = src.irange(0, 1);
        c.ops.push_back(op);
    }
    return c;
}

static std::string exe_dir()
{
    char buf[4096];
    ssize_t n = ::readlink("/proc/self/exe", buf, sizeof buf - 1);
    if (n <= 0)
        return ".";
    buf[n] = 0;
    return ::dirname(buf);
}

using Sym = nitro::dl::symbol<int()>;

struct Slot
{
    std::unique_ptr<nitro::dl::dl> lib;
    std::unique_ptr<Sym> sym;
    int event = -1; // open event this object holds
    int symidx = 0;
    bool occupied() const
    {
        return lib || sym;
    }
    void clear()
    {
        lib.reset();
        sym.reset();
        event = -1;
    }
};

struct Event
{
    void* handle;
    int lib;
};

static std::string check_dl(const Case& c, vf::Ctx& ctx)
{
    static const std::string dir = exe_dir();
    lw::Log& L = lw::log();
    L.reset();
    lw::active = true;
    std::string err;
    bool nontrivial = false;
    {
        std::array<Slot, NSLOT> slot;
        std::vector<Event> events;
        std::size_t step = 0;
        // exceptions kept beyond their handler: (copy of the exception, the diagnostic the loader gave)
        std::vector<std::pair<nitro::dl::exception, std::string>> kept;
        bool failure_seen_between = false;
        std::set<int> libs_open_before_failure;

        auto path_of = [&](int lib) { return dir + "/" + LIBS[lib]; };
        auto holders = [&](int ev) {
            int n = 0;
            for (auto& s : slot)
                if (s.occupied() && s.event == ev)
                    ++n;
            return n;
        };
        auto verify = [&](const std::string& when) {
            if (!L.errors.empty())
            {
                err = L.errors[0] + when;
                return;
            }
            std::map<void*, long> expect;
            for (std::size_t e = 0; e < events.size(); ++e)
                if (holders(static_cast<int>(e)) > 0)
                    expect[events[e].handle]++;
            for (auto& kv : L.outstanding)
            {
                long want = expect.count(kv.first) ? expect[kv.first] : 0;
                if (kv.second < want)
                {
                    err = "a library was closed although " + std::to_string(want) +
                          " open event(s) on it still have holders (dl objects, symbols or copies)" + when;
                    return;
                }
                if (kv.second > want)
                {
                    err = "a library handle stays open (" + std::to_string(kv.second) +
                          " outstanding opens) although only " + std::to_string(want) +
                          " open event(s) still have holders: not closed after the last holder" + when;
                    return;
                }
            }
            // the loader agrees on "mapped"
            for (int lib = 0; lib < 2; ++lib)
            {
                bool want_mapped = false;
                for (std::size_t e = 0; e < events.size(); ++e)
                    if (events[e].lib == lib && holders(static_cast<int>(e)) > 0)
                        want_mapped = true;
                void* h = __real_dlopen(path_of(lib).c_str(), RTLD_NOLOAD | RTLD_NOW);
                bool mapped = h != nullptr;
                if (h)
                    __real_dlclose(h);
                if (mapped != want_mapped)
                {
                    err = std::string(LIBS[lib]) + " is " + (mapped ? "still mapped" : "not mapped") +
                          " but the model says it should " + (want_mapped ? "be mapped" : "be unmapped") +
                          when;
                    return;
                }
            }
        };

        for (const Op& op : c.ops)
        {
            int a = op.a % NSLOT, b = op.b % NSLOT;
            std::string when = " (step " + std::to_string(step) + " of " + describe(c) + ")";
            switch (op.code)
            {
            case OPEN:
            {
                int lib = op.arg % 4;
                slot[a].clear();
                long opens_before = L.opens;
                try
                {
                    if (lib == 3)
                        slot[a].lib.reset(new nitro::dl::dl(nitro::dl::self));
                    else if (lib == 2 && op.b / NSLOT / 2 % 2)
                        slot[a].lib.reset(new nitro::dl::dl(dir + "/" + MISSING_ODD));
                    else
                        slot[a].lib.reset(new nitro::dl::dl(path_of(lib)));
                    if (lib == 2)
                        err = "opening a missing library did not raise" + when;
                    else if (L.opens != opens_before + 1)
                        err = "constructing a dl object did not open the library exactly once" + when;
                    else
                    {
                        events.push_back(Event{ slot[a].lib->get().get(), lib });
                        slot[a].event = static_cast<int>(events.size()) - 1;
                    }
                    ctx.tag("dl:open-ok");
                }
                catch (const nitro::dl::exception& e)
                {
                    ctx.tag("dl:open-failed");
                    failure_seen_between = true;
                    if (lib != 2)
                        err = std::string("opening ") + LIBS[lib] + " raised: " + e.what() + " / " +
                              e.dlerror() + when;
                    else if (op.b / NSLOT % 2)
                        kept.emplace_back(e, L.last_dlerror);
                    else if (e.dlerror().empty() || e.dlerror() != L.last_dlerror)
                        err = "the exception of a failed open carries " + vf::vis(e.dlerror(), 100) +
                              ", the loader's diagnostic was " + vf::vis(L.last_dlerror, 100) + when;
                }
                catch (const std::exception& e)
                {
                    err = std::string("opening a library raised another exception type: ") + e.what() + when;
                }
                break;
            }
            case LOAD:
            {
                if (!slot[b].lib || a == b)
                    break;
                int ev = slot[b].event;
                int sidx = op.arg % NSYM;
                int lib = events[static_cast<std::size_t>(ev)].lib;
                bool exists = lib == 3 ? false : (sidx == 0 || (sidx == 1 && lib == 1));
                const char* name = SYMS[sidx];
                if (lib == 3 && (sidx == 0 || sidx == 3))
                {
                    name = "vf_self_value";
                    exists = true;
                }
                else if (lib == 3 && sidx == 4)
                    name = SYMS[2]; // through the handle of the program itself the name would resolve
                if (sidx == 5)
                    exists = false;
                if (sidx == 6)
                {
                    exists = lib == 0; // only library A has it
                    if (lib == 3)
                        name = SYMS[2];
                    if (exists)
                        ctx.tag("dl:symbol-with-value-null");
                }
                if (!exists && (sidx == 3 || sidx == 4))
                    ctx.tag("dl:name-defined-elsewhere-in-the-process");
                slot[a].clear();
                try
                {
                    slot[a].sym.reset(new Sym(slot[b].lib->load<int()>(name)));
                    slot[a].event = ev;
                    slot[a].symidx = sidx;
                    if (!exists)
                        err = std::string("looking up the missing symbol ") + name + " did not raise" + when;
                    ctx.tag("dl:load-ok");
                }
                catch (const nitro::dl::exception& e)
                {
                    ctx.tag("dl:load-failed");
                    failure_seen_between = true;
                    if (exists)
                        err = std::string("looking up ") + name + " raised: " + e.what() + when;
                    else if (op.b / NSLOT % 2)
                        kept.emplace_back(e, L.last_dlerror);
                    else if (e.dlerror().empty() || e.dlerror() != L.last_dlerror)
                        err = "the exception of a failed lookup carries " + vf::vis(e.dlerror(), 100) +
                              ", the loader's diagnostic was " + vf::vis(L.last_dlerror, 100) + when;
                }
                catch (const std::exception& e)
                {
                    err = std::string("a symbol lookup raised another exception type: ") + e.what() + when;
                }
                break;
            }
            case COPY:
                if (!slot[b].occupied() || a == b)
                    break;
                slot[a].clear();
                if (slot[b].lib)
                    slot[a].lib.reset(new nitro::dl::dl(*slot[b].lib));
                else
                    slot[a].sym.reset(new Sym(*slot[b].sym));
                slot[a].event = slot[b].event;
                slot[a].symidx = slot[b].symidx;
                ctx.tag("dl:copy");
                break;
            case ASSIGN:
                if (!slot[b].occupied() || !slot[a].occupied())
                    break;
                if (slot[a].lib && slot[b].lib)
                    *slot[a].lib = *slot[b].lib;
                else if (slot[a].sym && slot[b].sym)
                    *slot[a].sym = *slot[b].sym;
                else
                    break;
                slot[a].event = slot[b].event;
                slot[a].symidx = slot[b].symidx;
                ctx.tag("dl:assign");
                break;
            case CALL:
                if (slot[a].sym && slot[a].symidx != 6)
                {
                    int lib = events[static_cast<std::size_t>(slot[a].event)].lib;
                    int want = lib == 3 ? 77 : (lib == 0 ? 11 : 22) + (slot[a].symidx == 1 ? 100 : 0);
                    // outlives its dl object?
                    bool dl_alive = false;
                    for (auto& s : slot)
                        if (s.lib && s.event == slot[a].event)
                            dl_alive = true;
                    if (!dl_alive)
                    {
                        nontrivial = true;
                        ctx.tag("dl:call-symbol-outliving-its-dl");
                    }
                    int got = (*slot[a].sym)(); // a call into an unmapped library faults
                    if (got != want)
                        err = "calling the symbol returned " + std::to_string(got) + ", the library's value is " +
                              std::to_string(want) + when;
                }
                break;
            case DESTROY:
                if (slot[a].occupied())
                {
                    slot[a].clear();
                    ctx.tag("dl:destroy");
                }
                break;
            case LOAD_TEMP:
            {
                int lib = op.arg % 2;
                const char* name = SYMS[2 + op.a % 3];
                std::string diag;
                try
                {
                    // the library object is a temporary: the failed lookup unwinds through its destructor
                    // (dlclose) before the handler runs
                    (void)nitro::dl::dl(path_of(lib)).load<int()>(name);
                    err = std::string("looking up the missing symbol ") + name + " in a temporary dl did not raise" + when;
                }
                catch (const nitro::dl::exception& e)
                {
                    ctx.tag("dl:load-failed-in-temporary-dl");
                    failure_seen_between = true;
                    if (e.dlerror().empty() || e.dlerror() != L.last_dlerror)
                        err = "the exception of a failed lookup in a temporary dl carries " + vf::vis(e.dlerror(), 100) +
                              ", the loader's diagnostic was " + vf::vis(L.last_dlerror, 100) + when;
                }
                catch (const std::exception& e)
                {
                    err = std::string("a symbol lookup raised another exception type: ") + e.what() + when;
                }
                break;
            }
            }
            if (err.empty())
                verify(when);
            if (!err.empty())
                break;
            // non-trivial: a symbol outlives its dl, or a failure between two opens of one library
            for (auto& s : slot)
                if (s.sym)
                {
                    bool dl_alive = false;
                    for (auto& t : slot)
                        if (t.lib && t.event == s.event)
                            dl_alive = true;
                    if (!dl_alive)
                        nontrivial = true;
                }
            if (failure_seen_between && L.opens >= 2)
                nontrivial = true;
            ++step;
        }
        if (err.empty())
        {
            for (auto& s : slot)
                s.clear();
            verify(" (after all objects were destroyed)");
        }
        // the exceptions that were put aside still carry the diagnostic of their own failure
        for (auto& k : kept)
        {
            ctx.tag("dl:exception-read-late");
            if (err.empty() && (k.first.dlerror().empty() || k.first.dlerror() != k.second))
                err = "an exception kept beyond its handler carries " + vf::vis(k.first.dlerror(), 100) +
                      " after later loader calls, the loader's diagnostic at the time was " + vf::vis(k.second, 100) +
                      " (" + describe(c) + ")";
        }
    }
    lw::active = false;
    if (nontrivial)
        ctx.mark_nontrivial();
    return err;
}

static std::string check_env(const Case& c, vf::Ctx& ctx)
{
    std::string name = "NITRO_VERIF_" + c.name;
    ::unsetenv(name.c_str());
    // other variables next to it (set first: they come earlier in environ): NAME_MAX and NAMEx are not NAME
    struct Neighbours
    {
        std::vector<std::string> names;
        ~Neighbours()
        {
            for (auto& n : names)
                ::unsetenv(n.c_str());
        }
    } nb;
    if (c.neighbour)
    {
        nb.names = { name + "_MAX", name + "x", "X" + name };
        // the same name with '-' and '_' exchanged is another variable
        std::string twin = name;
        for (std::size_t i = 12; i < twin.size(); ++i)
            twin[i] = twin[i] == '-' ? '_' : (twin[i] == '_' ? '-' : twin[i]);
        if (twin != name)
            nb.names.push_back(twin);
        for (auto& n : nb.names)
            ::setenv(n.c_str(), "neighbour=1", 1);
        ctx.tag("env:neighbouring-names-set");
    }
    if (c.state == 1)
        ::setenv(name.c_str(), "", 1);
    else if (c.state == 2)
        ::setenv(name.c_str(), c.value.c_str(), 1);
    ctx.tag(c.state == 0 ? "env:unset" : c.state == 1 ? "env:set-empty" : "env:set");
    if (c.state == 2 && c.value.size() > 4000)
        ctx.tag("env:long-value");
    if (c.state == 1 || (c.state == 0 && !c.dflt.empty()) ||
        (c.state == 2 && c.value.find_first_of("=- ;") != std::string::npos))
        ctx.mark_nontrivial();
    std::string err;
    try
    {
        std::string want = c.state == 0 ? c.dflt : (c.state == 1 ? "" : c.value);
        std::string got = nitro::env::get(name, c.dflt);
        if (got != want)
            err = "get(name, default) returned " + vf::vis(got, 80) + ", expected " + vf::vis(want, 80);
        if (err.empty())
        {
            std::string got1 = nitro::env::get(name); // default argument ""
            std::string want1 = c.state == 2 ? c.value : "";
            if (got1 != want1)
                err = "get(name) returned " + vf::vis(got1, 80) + ", expected " + vf::vis(want1, 80);
        }
        if (err.empty())
        {
            bool raised = false;
            std::string got2;
            try
            {
                got2 = nitro::env::get(name, nitro::env::no_default);
            }
            catch (const std::exception&)
            {
                raised = true;
            }
            if (c.state == 0 && !raised)
                err = "get(name, no_default) returned " + vf::vis(got2, 80) + " for an unset variable instead of raising";
            if (c.state != 0 && raised)
                err = "get(name, no_default) raised although the variable is set";
            if (c.state != 0 && !raised && got2 != (c.state == 1 ? "" : c.value))
                err = "get(name, no_default) returned " + vf::vis(got2, 80);
        }
    }
    catch (const std::exception& e)
    {
        err = std::string("env::get raised: ") + e.what();
    }
    ::unsetenv(name.c_str());
    return err;
}

std::string check(const Case& c, vf::Ctx& ctx)
{
    ctx.tag("mode:" + c.mode);
    return c.mode == "env" ? check_env(c, ctx) : check_dl(c, ctx);
}
} // namespace h

#include "common/vmain.hpp"
