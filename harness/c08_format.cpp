// C08 — nitro::format substitutes placeholders positionally, verbatim, with
// exact arity; exception messages concatenate their arguments. Reference: an
// independent left-to-right scanner for "{}".
#include "common/vcommon.hpp"

#include <nitro/format.hpp>
#include <nitro/options/exception.hpp>

#include <cstring>
#include <iomanip>
#include <locale>

namespace h
{
static const double DTAB[] = { 0.0, 1.0, -1.5, 0.25, 100.0, 1e6, 1e-3, 123456.0, 2.5e10 };
static const int NDTAB = 9;
// values only the widest floating point type can hold, next to ordinary ones
static const long double LDTAB[] = { 1e400L, -1e400L, 1.18973149535723176502e+4932L, 1e-400L, 2.5L, 0.1L, 1e308L * 10 };
static const int NLDTAB = 7;

// a value with two textual forms: what it converts to and what it streams as
struct Dual
{
    std::string s;
    operator std::string() const
    {
        return "converted:" + s;
    }
};
static std::ostream& operator<<(std::ostream& o, const Dual& d)
{
    return o << "streamed:" << d.s;
}

// an enumeration with a stream representation of its own
enum class Mode
{
    manual = 0,
    automatic = 1,
    off = 7
};
static std::ostream& operator<<(std::ostream& o, Mode m)
{
    return o << (m == Mode::manual ? "mode manual" : m == Mode::automatic ? "mode automatic" : "mode off");
}
static Mode mode_of(long long i)
{
    return i % 3 == 0 ? Mode::manual : i % 3 == 1 || i % 3 == -1 ? Mode::automatic : Mode::off;
}

// digit grouping like a user's locale would do it (installed as the global locale for some cases)
struct Grouping : std::numpunct<char>
{
    char do_thousands_sep() const override
    {
        return '\'';
    }
    std::string do_grouping() const override
    {
        return "\3";
    }
    char do_decimal_point() const override
    {
        return ',';
    }
};

struct Arg
{
    int kind = 0; // 0 std::string, 1 long, 2 char, 3 double, 4 const char*, 5 const char[8] (NUL padded),
                  // 6 std::hex, 7 std::boolalpha (stream manipulators: only in exception arguments),
                  // 8 long double, 9 Dual (converts to one text, streams as another), 10 an enum with operator<<
    std::string s;
    long long i = 0;
    int d = 0;
    template <class A>
    void io(A& a)
    {
        a("kind", kind);
        a("s", s);
        a("i", i);
        a("d", d);
    }
};

struct Case
{
    int what = 0; // 0 format, 1 raise(...), 2 raise<parsing_error>(...)
    std::string fmt;
    std::vector<Arg> args;
    int supply = 0; // 0 operator%, 1 args(...), 2 mixed: first half %, rest args(...)
    int read = 0;   // 0 str(), 1 conversion to std::string, 2 operator<<, 3 via _nf literal operator
    int grouping = 0; // 1: the global locale groups digits (1'234'567) and uses a decimal comma
    template <class A>
    void io(A& a)
    {
        a("what", what);
        a("fmt", fmt);
        a("args", args);
        a("supply", supply);
        a("read", read);
        a("grouping", grouping);
    }
};

const char* property_ids()
{
    return "C08";
}

// runtime-typed argument streamed through the very operator<< of its value
struct AnyArg
{
    const Arg* a;
};
// fixed-size character field: the text up to the first NUL, at most 7 characters
static std::string field_text(const Arg& a)
{
    std::string t = a.s.substr(0, 7);
    return t;
}

static std::ostream& operator<<(std::ostream& o, const AnyArg& x)
{
    switch (x.a->kind)
    {
    case 6:
        return o << std::hex;
    case 7:
        return o << std::boolalpha;
    case 5:
    {
        char field[8] = { 0 };
        std::string t = field_text(*x.a);
        std::memcpy(field, t.data(), t.size());
        const char(&ref)[8] = field;
        return o << ref;
    }
    case 0:
        return o << x.a->s;
    case 1:
        return o << static_cast<long>(x.a->i);
    case 2:
        return o << static_cast<char>(x.a->s.empty() ? 'c' : x.a->s[0]);
    case 3:
        return o << DTAB[x.a->d % NDTAB];
    case 8:
        return o << LDTAB[x.a->d % NLDTAB];
    case 9:
        return o << Dual{ x.a->s };
    case 10:
        return o << mode_of(x.a->i);
    default:
        return o << x.a->s.c_str();
    }
}

static std::string render(const Arg& a)
{
    switch (a.kind)
    {
    case 6:
        return "<std::hex>";
    case 7:
        return "<std::boolalpha>";
    case 5:
        return field_text(a);
    case 0:
    case 4:
        return a.s;
    case 1:
    {
        std::ostringstream o; // (not std::to_string: the stream representation follows the locale)
        o << static_cast<long>(a.i);
        return o.str();
    }
    case 2:
        return std::string(1, a.s.empty() ? 'c' : a.s[0]);
    case 8:
    {
        std::ostringstream o;
        o << LDTAB[a.d % NLDTAB];
        return o.str();
    }
    case 9:
        return "streamed:" + a.s;
    case 10:
    {
        std::ostringstream o;
        o << mode_of(a.i);
        return o.str();
    }
    default:
    {
        std::ostringstream o;
        o << DTAB[a.d % NDTAB];
        return o.str();
    }
    }
}

std::string describe(const Case& c)
{
    std::ostringstream o;
    if (c.what == 0)
        o << "format(" << vf::vis(c.fmt, 80) << ")";
    else
        o << (c.what == 1 ? "raise(" : "raise<parsing_error>(");
    const char* sep = c.what == 0 ? (c.supply == 1 ? " .args: " : " % ") : "";
    o << sep;
    for (std::size_t i = 0; i < c.args.size(); ++i)
        o << (i ? ", " : "") << (c.args[i].kind == 1 || c.args[i].kind == 3 || c.args[i].kind == 8 ? render(c.args[i])
                                                                             : vf::vis(render(c.args[i]), 40));
    if (c.what)
        o << ")";
    else
        o << " read=" << c.read;
    return o.str();
}

static std::string gen_text(vf::Src& src, int maxchunks)
{
    static const std::vector<std::string> chunks = { "{}", "{",  "}",  "{{", "}}",       "{ }", "{0}",
                                                     "%",  "\\", " ",  "a",  "xyz",      "",    "\xc3\xa4",
                                                     "$&", "\n", "{}{}", "}{", "{{}}",   "$1" };
    int n = src.irange(0, maxchunks);
    std::string r;
    for (int i = 0; i < n; ++i)
        r += src.pick(chunks);
    return r;
}

static std::size_t count_placeholders(const std::string& f)
{
    std::size_t k = 0, i = 0;
    while (i + 1 < f.size())
    {
        if (f[i] == '{' && f[i + 1] == '}')
        {
            ++k;
            i += 2;
        }
        else
            ++i;
    }
    return k;
}

static Arg gen_arg(vf::Src& src)
{
    Arg a;
    a.kind = static_cast<int>(src.weighted({ 35, 18, 10, 10, 17, 10, 0, 0, 6, 6, 5 }));
    a.s = src.coin(80) ? gen_text(src, 3) : src.bytes_nonul(0, 5);
    // now and then a long text (around and beyond 1 KiB)
    if (src.coin(4))
    {
        static const int lens[] = { 1000, 1023, 1024, 1025, 1026, 2049, 2050, 3000 };
        int n = lens[src.index(8)];
        a.s.clear();
        for (int i = 0; i < n; ++i)
            a.s.push_back(static_cast<char>('a' + (i * 7 + n) % 26));
    }
    if (a.kind == 2 && a.s.empty())
        a.s = "{";
    static const long long ints[] = { 0, 1, -1, 42, 1000000, -2147483648ll, 2147483647ll };
    a.i = src.coin(60) ? ints[src.index(7)] : static_cast<long long>(src.range(0, 2000000)) - 1000000;
    a.d = src.irange(0, NDTAB - 1);
    return a;
}

Case generate(vf::Src& src, const std::string& mode)
{
    Case c;
    bool ex = mode == "ex";
    if (ex)
    {
        // small scope: all formats of up to 4 chunks from {"{}", "{", "}", "a"} with 0..k+1 "{}" arguments
        static const std::vector<std::string> small = { "{}", "{", "}", "a" };
        int n = src.irange(0, 4);
        for (int i = 0; i < n; ++i)
            c.fmt += small[src.index(4)];
        int k = static_cast<int>(count_placeholders(c.fmt));
        int na = src.irange(0, k + 1);
        for (int i = 0; i < na; ++i)
        {
            Arg a;
            a.kind = 0;
            a.s = i % 2 ? "{}" : "}x{";
            c.args.push_back(a);
        }
        c.supply = src.irange(0, 1);
        return c;
    }
    c.what = static_cast<int>(src.weighted({ 80, 10, 10 }));
    if (c.what == 0)
    {
        c.fmt = gen_text(src, 8);
        int k = static_cast<int>(count_placeholders(c.fmt));
        int na;
        switch (src.weighted({ 70, 10, 10, 10 }))
        {
        case 0:
            na = k;
            break;
        case 1:
            na = k + 1;
            break;
        case 2:
            na = k > 0 ? k - 1 : 1;
            break;
        default:
            na = src.irange(0, k + 1);
        }
        for (int i = 0; i < na; ++i)
            c.args.push_back(gen_arg(src));
        c.supply = src.irange(0, 2);
        c.read = src.irange(0, 3);
        c.grouping = src.coin(12) ? 1 : 0;
    }
    else
    {
        c.grouping = src.coin(20) ? 1 : 0;
        int na = src.irange(1, 4);
        for (int i = 0; i < na; ++i)
        {
            c.args.push_back(gen_arg(src));
            if (src.coin(12))
                c.args.back().kind = src.coin(60) ? 6 : 7; // std::hex / std::boolalpha
        }
    }
    return c;
}

template <class F>
static void supply_percent(F& f, const Arg& a)
{
    switch (a.kind)
    {
    case 5:
    {
        // a fixed-size name field reached through a const object
        struct Rec
        {
            char name[8];
        } rec;
        std::memset(rec.name, 0, sizeof rec.name);
        std::string t = field_text(a);
        std::memcpy(rec.name, t.data(), t.size());
        const Rec& cr = rec;
        f % cr.name;
        break;
    }
    case 0:
    {
        // a named variable that is reused right after it was supplied
        std::string scratch = a.s;
        f % scratch;
        scratch.assign(scratch.size() + 3, '!');
        break;
    }
    case 1:
    {
        long scratch = static_cast<long>(a.i);
        f % scratch;
        scratch = -777;
        break;
    }
    case 10:
        f % mode_of(a.i);
        break;
    case 2:
        f % static_cast<char>(a.s.empty() ? 'c' : a.s[0]);
        break;
    case 3:
        f % DTAB[a.d % NDTAB];
        break;
    case 8:
        f % LDTAB[a.d % NLDTAB];
        break;
    case 9:
        f % Dual{ a.s };
        break;
    default:
        f % a.s.c_str();
    }
}

template <class F>
static void supply_args(F& f, const std::vector<Arg>& v, std::size_t from)
{
    std::size_t n = v.size() - from;
    const Arg* p = v.data() + from;
    switch (n)
    {
    case 0:
        f.args();
        break;
    case 1:
        f.args(AnyArg{ p });
        break;
    case 2:
        f.args(AnyArg{ p }, AnyArg{ p + 1 });
        break;
    case 3:
        f.args(AnyArg{ p }, AnyArg{ p + 1 }, AnyArg{ p + 2 });
        break;
    case 4:
        f.args(AnyArg{ p }, AnyArg{ p + 1 }, AnyArg{ p + 2 }, AnyArg{ p + 3 });
        break;
    default:
        // longer lists: four at a time
        f.args(AnyArg{ p }, AnyArg{ p + 1 }, AnyArg{ p + 2 }, AnyArg{ p + 3 });
        supply_args(f, v, from + 4);
    }
}

template <class E>
static std::string raise_what(const std::vector<Arg>& v, bool& caught)
{
    caught = false;
    try
    {
        const Arg* p = v.data();
        switch (v.size())
        {
        case 1:
            // a lone argument goes in as the very object it is, not wrapped
            if (p->kind == 9)
                nitro::raise<E>(Dual{ p->s });
            if (p->kind == 8)
                nitro::raise<E>(LDTAB[p->d % NLDTAB]);
            if (p->kind == 0)
                nitro::raise<E>(p->s);
            if (p->kind == 10)
                nitro::raise<E>(mode_of(p->i));
            if (p->kind == 1)
                nitro::raise<E>(static_cast<long>(p->i));
            nitro::raise<E>(AnyArg{ p });
        case 2:
            nitro::raise<E>(AnyArg{ p }, AnyArg{ p + 1 });
        case 3:
            nitro::raise<E>(AnyArg{ p }, AnyArg{ p + 1 }, AnyArg{ p + 2 });
        default:
            nitro::raise<E>(AnyArg{ p }, AnyArg{ p + 1 }, AnyArg{ p + 2 }, AnyArg{ p + 3 });
        }
    }
    catch (const E& e)
    {
        caught = true;
        return e.what();
    }
    return "";
}

static std::string check_inner(const Case& c, vf::Ctx& ctx);

std::string check(const Case& c, vf::Ctx& ctx)
{
    if (!c.grouping)
        return check_inner(c, ctx);
    // the stream representation of a number is whatever the program's locale makes of it: the
    // reference streams and the library's see the same global locale
    ctx.tag("locale:digit-grouping");
    std::locale before = std::locale::global(std::locale(std::locale::classic(), new Grouping));
    std::string m;
    try
    {
        m = check_inner(c, ctx);
    }
    catch (...)
    {
        std::locale::global(before);
        throw;
    }
    std::locale::global(before);
    if (!m.empty())
        m += " [global locale with digit grouping]";
    return m;
}

static std::string check_inner(const Case& c, vf::Ctx& ctx)
{
    if (c.what != 0)
    {
        ctx.tag(c.what == 1 ? "what:raise" : "what:raise<parsing_error>");
        if (c.args.empty())
            return "";
        std::vector<Arg> v = c.args;
        if (v.size() > 4)
            v.resize(4);
        // the stream representations, concatenated: all arguments streamed into ONE fresh
        // stream (a manipulator among them acts on the arguments behind it, and on nothing else)
        std::string want;
        {
            std::ostringstream fresh;
            for (auto& a : v)
                fresh << AnyArg{ &a };
            want = fresh.str();
        }
        bool caught = false;
        std::string got = c.what == 1 ? raise_what<nitro::except::exception>(v, caught)
                                      : raise_what<nitro::options::parsing_error>(v, caught);
        if (v.size() >= 2)
            ctx.mark_nontrivial();
        bool manip = false;
        for (auto& a : v)
            manip |= a.kind >= 6;
        if (manip)
            ctx.tag("raise:manipulator-argument");
        if (!caught)
            return "raise did not throw the requested exception type";
        if (got != want)
            return "exception message is " + vf::vis(got, 200) + ", concatenation of the arguments is " +
                   vf::vis(want, 200);
        // the next exception starts from scratch: nothing of this one's formatting state leaks
        {
            Arg n;
            n.kind = 1;
            n.i = 255;
            Arg b;
            b.kind = 1;
            b.i = 1;
            std::vector<Arg> next = { n, b };
            bool c2 = false;
            std::string got2 = raise_what<nitro::except::exception>(next, c2);
            if (!c2 || got2 != "2551")
                return "a later exception with the arguments (255, 1) reads " + vf::vis(got2, 60) +
                       " instead of \"2551\": state of an earlier message leaked into it";
        }
        return "";
    }

    ctx.tag("what:format");
    // ---- reference: non-overlapping "{}" left to right
    std::vector<std::size_t> hits;
    for (std::size_t i = 0; i + 1 < c.fmt.size();)
    {
        if (c.fmt[i] == '{' && c.fmt[i + 1] == '}')
        {
            hits.push_back(i);
            i += 2;
        }
        else
            ++i;
    }
    const std::size_t k = hits.size();
    bool arity_ok = c.args.size() == k;
    std::string want;
    if (arity_ok)
    {
        std::size_t pos = 0;
        for (std::size_t i = 0; i < k; ++i)
        {
            want.append(c.fmt, pos, hits[i] - pos);
            want += render(c.args[i]);
            pos = hits[i] + 2;
        }
        want.append(c.fmt, pos, std::string::npos);
    }
    bool brace_arg = false;
    for (auto& a : c.args)
        if (render(a).find_first_of("{}") != std::string::npos)
            brace_arg = true;
    bool adjacent = false, lone_touch = false;
    for (std::size_t i = 0; i < k; ++i)
    {
        if (i + 1 < k && hits[i + 1] == hits[i] + 2)
            adjacent = true;
        if (hits[i] > 0 && (c.fmt[hits[i] - 1] == '{' || c.fmt[hits[i] - 1] == '}'))
            lone_touch = true;
        if (hits[i] + 2 < c.fmt.size() && (c.fmt[hits[i] + 2] == '{' || c.fmt[hits[i] + 2] == '}'))
            lone_touch = true;
    }
    if (!arity_ok)
        ctx.tag(c.args.size() > k ? "arity:too-many" : "arity:too-few");
    if (brace_arg && k >= 1)
        ctx.tag("arg:contains-brace");
    if (adjacent)
        ctx.tag("fmt:adjacent-placeholders");
    if (lone_touch)
        ctx.tag("fmt:lone-brace-touches-placeholder");
    if ((k >= 1 && (brace_arg || adjacent || lone_touch)) || !arity_ok)
        ctx.mark_nontrivial();

    // ---- the real thing
    std::string got, partial_output;
    bool raised = false;
    std::string what;
    try
    {
        auto f = c.read == 3 ? operator""_nf(c.fmt.c_str(), c.fmt.size()) : nitro::format(c.fmt);
        if (c.supply == 0)
            for (auto& a : c.args)
                supply_percent(f, a);
        else if (c.supply == 1)
            supply_args(f, c.args, 0);
        else
        {
            std::size_t half = c.args.size() / 2;
            for (std::size_t i = 0; i < half; ++i)
                supply_percent(f, c.args[i]);
            supply_args(f, c.args, half);
        }
        switch (c.read)
        {
        case 1:
        {
            std::string s = f;
            got = s;
            break;
        }
        case 2:
        {
            std::ostringstream o;
            try
            {
                o << "<" << f << ">";
            }
            catch (...)
            {
                // an insertion that raises has not written anything of the formatter
                if (o.str() != "<")
                    partial_output = o.str();
                throw;
            }
            got = o.str();
            if (got.size() >= 2)
                got = got.substr(1, got.size() - 2);
            break;
        }
        default:
            got = f.str();
        }
        // reading is repeatable: the formatter is not consumed by str()
        if (f.str() != got)
        {
            got = "<second str() differs> " + f.str();
        }
        // copies are independent: what is added to a copy (also to a copy that is a temporary while
        // it is extended) does not reach the original or other copies
        {
            auto by_value = [&]() { return f; };
            bool copy_raised = false;
            try
            {
                (void)(by_value() % std::string("+1") % 2).str();
            }
            catch (const std::exception&)
            {
                copy_raised = true;
            }
            if (!copy_raised) // (the original has exactly as many arguments as placeholders here)
                got = "<a copy with two more arguments than placeholders did not raise> " + got;
            auto h2 = f;
            if (f.str() != got || h2.str() != got)
                got = "<after a temporary copy was given two more arguments, the original reads " + f.str() +
                      " and a fresh copy " + h2.str() + "> " + got;
        }
    }
    catch (const std::exception& e)
    {
        raised = true;
        what = e.what();
    }
    if (!partial_output.empty())
        return "inserting a formatter with " + std::to_string(k) + " placeholders and " + std::to_string(c.args.size()) +
               " arguments into a stream raised, but the stream already holds " + vf::vis(partial_output, 200);
    if (!arity_ok && raised && c.args.size() < k && c.supply == 0)
    {
        // asking the same, still incomplete formatter again raises again
        auto f = nitro::format(c.fmt);
        for (auto& a : c.args)
            supply_percent(f, a);
        int raises = 0;
        std::string later;
        for (int round = 0; round < 3; ++round)
        {
            try
            {
                if (round == 1)
                {
                    std::string s = f;
                    later = s;
                }
                else
                    later = f.str();
            }
            catch (const std::exception&)
            {
                ++raises;
            }
        }
        if (raises != 3)
            return "a formatter with " + std::to_string(k) + " placeholders and " + std::to_string(c.args.size()) +
                   " arguments raised when first asked for its text, but a later request returned " +
                   vf::vis(later, 200);
        ctx.tag("arity:too-few-asked-again");
    }
    if (!arity_ok)
    {
        if (!raised)
            return "format with " + std::to_string(k) + " placeholders and " +
                   std::to_string(c.args.size()) + " arguments returned " + vf::vis(got, 200) +
                   " instead of raising";
        return "";
    }
    if (raised)
        return "format raised (" + what + ") although the number of arguments equals the number of "
               "placeholders (" + std::to_string(k) + ")";
    if (got != want)
        return "format gives " + vf::vis(got, 300) + ", positional verbatim substitution gives " +
               vf::vis(want, 300);
    return "";
}
} // namespace h

#include "common/vmain.hpp"
