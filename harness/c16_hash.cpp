// C16 — hashing agrees with equality, comparison with the member tuple.
//   mode grid : per type, exhaustive grids: all pairs (hash/equality/operator
//               laws, position sensitivity with a collision-rate bound) and all
//               triples of a sub-grid (transitivity)
//   mode rc   : random wide values: pair/triple laws and a hash container filled
//               with a generated subset
// Reference: hand-written member-by-member lexicographic comparison.
#include "common/vcommon.hpp"

#include <nitro/lang/tuple_operators.hpp>
#include <nitro/lang/unordered.hpp>

#include <climits>
#include <cmath>
#include <cstring>
#include <new>
#include <variant>

namespace h
{
struct Val
{
    long long i = 0;
    std::string s;
    int d = 0;   // index into the double table
    int alt = 0; // variant alternative: 0 int, 1 string
    template <class A>
    void io(A& a)
    {
        a("i", i);
        a("s", s);
        a("d", d);
        a("alt", alt);
    }
};

static const double DTAB[] = { 0.0, -0.0, 1.0, -1.0, 0.5, 2.0, 1e300 };
static const int NDTAB = 7;

struct Case
{
    int type = 0;
    bool grid = false;
    Val x, y, z;
    std::vector<Val> members; // container test: inserted values
    std::vector<Val> probes;  // looked up afterwards
    template <class A>
    void io(A& a)
    {
        a("type", type);
        a("grid", grid);
        a("x", x);
        a("y", y);
        a("z", z);
        a("members", members);
        a("probes", probes);
    }
};

const char* property_ids()
{
    return "C16";
}

enum
{
    T_S1 = 0,
    T_S2,
    T_S3,
    T_S4,
    T_TUPLE,
    T_PAIR,
    T_VARIANT,
    T_PTR,
    T_S5, // 64-bit integer member (appended: the numbering of saved cases stays valid)
    T_COUNT
};
static const char* type_name(int t)
{
    static const char* n[] = { "S1(int)",
                               "S2(int,string)",
                               "S3(int8,string,double)",
                               "S4(tuple<pair<int,string>,variant<int,string>>)",
                               "std::tuple<int,string,double>",
                               "std::pair<int,string>",
                               "std::variant<int,string>",
                               "unique_ptr/shared_ptr<S2>",
                               "S5(int64,string)" };
    return t >= 0 && t < T_COUNT ? n[t] : "?";
}

static std::string val_str(const Val& v)
{
    std::ostringstream o;
    o << "(" << v.i << "," << vf::vis(v.s, 20) << "," << DTAB[v.d % NDTAB]
      << (std::signbit(DTAB[v.d % NDTAB]) && DTAB[v.d % NDTAB] == 0 ? "(-0)" : "") << ",alt" << v.alt % 2
      << ")";
    return o.str();
}

std::string describe(const Case& c)
{
    std::ostringstream o;
    o << type_name(c.type);
    if (c.grid)
        o << " exhaustive grid";
    else
        o << " x=" << val_str(c.x) << " y=" << val_str(c.y) << " z=" << val_str(c.z) << " set of "
          << c.members.size();
    return o.str();
}

// ---------------------------------------------------------------- types under test

struct S1 : nitro::lang::tuple_operators<S1>
{
    explicit S1(const Val& v) : a(static_cast<int>(v.i))
    {
    }
    auto as_tuple()
    {
        return std::tie(a);
    }
    int a;
};
struct S2 : nitro::lang::tuple_operators<S2>
{
    explicit S2(const Val& v) : a(static_cast<int>(v.i)), s(v.s)
    {
    }
    auto as_tuple()
    {
        return std::tie(a, s);
    }
    int a;
    std::string s;
};
struct S3 : nitro::lang::tuple_operators<S3>
{
    explicit S3(const Val& v) : a(static_cast<std::int8_t>(v.i)), s(v.s), d(DTAB[v.d % NDTAB])
    {
    }
    auto as_tuple()
    {
        return std::tie(a, s, d);
    }
    std::int8_t a;
    std::string s;
    double d;
};
// the 64-bit value of a Val: spreads the generated integers over the whole range
static long long wide(const Val& v)
{
    static const long long W[] = { 0, 1, -1, 1ll << 31, -(1ll << 31), 1ll << 32, (1ll << 32) + 1,
                                   -(1ll << 32), 1ll << 33, (1ll << 62), LLONG_MIN, LLONG_MAX, 3ll << 32 };
    long long i = v.i;
    return W[static_cast<std::size_t>((i % 13 + 13) % 13)];
}
struct S5 : nitro::lang::tuple_operators<S5>
{
    explicit S5(const Val& v) : a(wide(v)), s(v.s)
    {
    }
    auto as_tuple()
    {
        return std::tie(a, s);
    }
    long long a;
    std::string s;
};
using Var = std::variant<int, std::string>;
static Var make_var(const Val& v)
{
    if (v.alt % 2 == 0)
        return Var(std::in_place_index<0>, static_cast<int>(v.i % 7));
    return Var(std::in_place_index<1>, v.s);
}
struct S4 : nitro::lang::tuple_operators<S4>
{
    explicit S4(const Val& v) : m(std::make_pair(static_cast<int>(v.i), v.s), make_var(v))
    {
    }
    auto as_tuple()
    {
        return std::tie(m);
    }
    std::tuple<std::pair<int, std::string>, Var> m;
};

// three-way reference comparison, member by member
template <class T>
static int cmp3(const T& a, const T& b)
{
    return a < b ? -1 : (b < a ? 1 : 0);
}
static int cmp_str(const std::string& a, const std::string& b)
{
    std::size_t n = std::min(a.size(), b.size());
    for (std::size_t i = 0; i < n; ++i)
    {
        unsigned char x = static_cast<unsigned char>(a[i]), y = static_cast<unsigned char>(b[i]);
        // std::string compares char values through char_traits<char>::lt, which is unsigned
        if (x != y)
            return x < y ? -1 : 1;
    }
    return a.size() < b.size() ? -1 : (a.size() > b.size() ? 1 : 0);
}

static int ref_cmp(int type, const Val& a, const Val& b)
{
    int r;
    switch (type)
    {
    case T_S1:
        return cmp3(static_cast<int>(a.i), static_cast<int>(b.i));
    case T_S2:
    case T_PAIR:
    case T_PTR:
        if ((r = cmp3(static_cast<int>(a.i), static_cast<int>(b.i))))
            return r;
        return cmp_str(a.s, b.s);
    case T_S3:
        if ((r = cmp3(static_cast<std::int8_t>(a.i), static_cast<std::int8_t>(b.i))))
            return r;
        if ((r = cmp_str(a.s, b.s)))
            return r;
        return cmp3(DTAB[a.d % NDTAB], DTAB[b.d % NDTAB]);
    case T_S5:
        if ((r = cmp3(wide(a), wide(b))))
            return r;
        return cmp_str(a.s, b.s);
    case T_TUPLE:
        if ((r = cmp3(static_cast<int>(a.i), static_cast<int>(b.i))))
            return r;
        if ((r = cmp_str(a.s, b.s)))
            return r;
        return cmp3(DTAB[a.d % NDTAB], DTAB[b.d % NDTAB]);
    case T_S4:
        if ((r = cmp3(static_cast<int>(a.i), static_cast<int>(b.i))))
            return r;
        if ((r = cmp_str(a.s, b.s)))
            return r;
        // variant: index first, then the held value
        if ((r = cmp3(a.alt % 2, b.alt % 2)))
            return r;
        if (a.alt % 2 == 0)
            return cmp3(static_cast<int>(a.i % 7), static_cast<int>(b.i % 7));
        return cmp_str(a.s, b.s);
    case T_VARIANT:
        if ((r = cmp3(a.alt % 2, b.alt % 2)))
            return r;
        if (a.alt % 2 == 0)
            return cmp3(static_cast<int>(a.i % 7), static_cast<int>(b.i % 7));
        return cmp_str(a.s, b.s);
    }
    return 0;
}

// number of components in which two values differ (for position sensitivity)
static int components_differing(int type, const Val& a, const Val& b)
{
    int n = 0;
    bool di = static_cast<int>(a.i) != static_cast<int>(b.i);
    bool ds = a.s != b.s;
    bool dd = DTAB[a.d % NDTAB] != DTAB[b.d % NDTAB];
    switch (type)
    {
    case T_S1:
        return di;
    case T_S2:
    case T_PAIR:
    case T_PTR:
        return di + ds;
    case T_S3:
        return (static_cast<std::int8_t>(a.i) != static_cast<std::int8_t>(b.i)) + ds + dd;
    case T_S5:
        return (wide(a) != wide(b)) + ds;
    case T_TUPLE:
        return di + ds + dd;
    default:
        return -1; // nested/variant: not used for the one-component rule
    }
    return n;
}

template <class T>
struct Ops
{
    static std::string pair_laws(int type, const Val& va, const Val& vb, const T& a, const T& b,
                                 bool ordered)
    {
        int r = ref_cmp(type, va, vb);
        std::string who = std::string(type_name(type)) + " a=" + val_str(va) + " b=" + val_str(vb);
        std::size_t ha = nitro::lang::hash(a), hb = nitro::lang::hash(b);
        if (r == 0 && ha != hb)
            return "equal values hash differently: " + who;
        if (ordered)
        {
            bool lt = a < b, gt = a > b, eq = a == b, ne = a != b, le = a <= b, ge = a >= b;
            if (lt != (r < 0) || gt != (r > 0) || eq != (r == 0) || ne != (r != 0) || le != (r <= 0) ||
                ge != (r >= 0))
                return "comparison operators disagree with the lexicographic comparison of the member "
                       "tuple (reference " +
                       std::to_string(r) + "; < " + std::to_string(lt) + " > " + std::to_string(gt) +
                       " == " + std::to_string(eq) + " != " + std::to_string(ne) + " <= " +
                       std::to_string(le) + " >= " + std::to_string(ge) + "): " + who;
            if (int(lt) + int(eq) + int(gt) != 1)
                return "not exactly one of <, ==, > holds: " + who;
        }
        return "";
    }
};

template <class T>
static T make(const Val& v);
template <>
S1 make<S1>(const Val& v)
{
    return S1(v);
}
template <>
S2 make<S2>(const Val& v)
{
    return S2(v);
}
template <>
S3 make<S3>(const Val& v)
{
    return S3(v);
}
template <>
S4 make<S4>(const Val& v)
{
    return S4(v);
}
template <>
S5 make<S5>(const Val& v)
{
    return S5(v);
}
using Tup = std::tuple<int, std::string, double>;
template <>
Tup make<Tup>(const Val& v)
{
    return Tup(static_cast<int>(v.i), v.s, DTAB[v.d % NDTAB]);
}
using Pr = std::pair<int, std::string>;
template <>
Pr make<Pr>(const Val& v)
{
    return Pr(static_cast<int>(v.i), v.s);
}
template <>
Var make<Var>(const Val& v)
{
    return make_var(v);
}

// ---------------------------------------------------------------- grids

static std::vector<Val> grid_values(int type, bool small)
{
    std::vector<long long> ints = small ? std::vector<long long>{ INT_MIN, -1, 0, 1, INT_MAX }
                                        : std::vector<long long>{ INT_MIN, -2, -1, 0, 1, 2, 3,
                                                                  1 << 20, INT_MAX };
    if (type == T_S5)
        ints = small ? std::vector<long long>{ 0, 3, 5, 6, 10 }
                     : std::vector<long long>{ 0, 1, 2, 3, 4, 5, 6, 7, 8, 9, 10, 11, 12 };
    if (type == T_S3)
        ints = small ? std::vector<long long>{ -128, -1, 0, 1, 127 }
                     : std::vector<long long>{ -128, -2, -1, 0, 1, 2, 3, 127 };
    std::vector<std::string> strs = small ? std::vector<std::string>{ "", "a", "b", "ab" }
                                          : std::vector<std::string>{ "", "a", "b", "ab", "ba", "aa" };
    std::vector<int> ds = small ? std::vector<int>{ 0, 1, 2, 3 } : std::vector<int>{ 0, 1, 2, 3, 4, 5, 6 };
    bool use_s = type != T_S1;
    bool use_d = type == T_S3 || type == T_TUPLE;
    bool use_alt = type == T_S4 || type == T_VARIANT;
    std::vector<Val> out;
    for (long long i : ints)
        for (auto& s : (use_s ? strs : std::vector<std::string>{ "" }))
            for (int d : (use_d ? ds : std::vector<int>{ 0 }))
                for (int alt : (use_alt ? std::vector<int>{ 0, 1 } : std::vector<int>{ 0 }))
                {
                    Val v;
                    v.i = i;
                    v.s = s;
                    v.d = d;
                    v.alt = alt;
                    out.push_back(v);
                }
    return out;
}

template <class T>
static std::string run_grid(int type, bool ordered, vf::Ctx& ctx)
{
    auto g = grid_values(type, false);
    std::vector<T> objs;
    for (auto& v : g)
        objs.push_back(make<T>(v));
    std::uint64_t pairs = 0, one_diff = 0, one_diff_collide = 0, swapped = 0, swapped_collide = 0;
    for (std::size_t i = 0; i < g.size(); ++i)
        for (std::size_t j = 0; j < g.size(); ++j)
        {
            ++pairs;
            // distinct objects even for i == j
            T other = make<T>(g[j]);
            std::string m = Ops<T>::pair_laws(type, g[i], g[j], objs[i], other, ordered);
            if (!m.empty())
                return m;
            int nd = components_differing(type, g[i], g[j]);
            if (nd == 1)
            {
                ++one_diff;
                if (nitro::lang::hash(objs[i]) == nitro::lang::hash(other))
                    ++one_diff_collide;
            }
        }
    // swapped components: (int, string) vs a value whose components are exchanged is only
    // expressible for homogeneous members; use std::pair<int,int>/tuple<int,int>
    for (int a = -3; a <= 8; ++a)
        for (int b = -3; b <= 8; ++b)
        {
            if (a == b)
                continue;
            ++swapped;
            if (nitro::lang::hash(std::make_pair(a, b)) == nitro::lang::hash(std::make_pair(b, a)))
                ++swapped_collide;
            ++swapped;
            if (nitro::lang::hash(std::make_tuple(a, b, 1)) == nitro::lang::hash(std::make_tuple(b, a, 1)))
                ++swapped_collide;
            ++swapped;
            if (nitro::lang::hash(std::make_tuple(1, a, b)) == nitro::lang::hash(std::make_tuple(1, b, a)))
                ++swapped_collide;
        }
    ctx.add("grid:pairs", pairs);
    ctx.add("grid:pairs-differing-in-one-component", one_diff);
    ctx.add("grid:one-component-collisions", one_diff_collide);
    ctx.add("grid:swapped-pairs", swapped);
    ctx.add("grid:swapped-collisions", swapped_collide);
    if (one_diff && one_diff_collide * 100 > one_diff)
        return std::string(type_name(type)) + ": " + std::to_string(one_diff_collide) + " of " +
               std::to_string(one_diff) +
               " pairs differing in exactly one component have equal hashes (bound 1%): the hash does "
               "not depend on every component";
    if (swapped_collide * 100 > swapped)
        return std::to_string(swapped_collide) + " of " + std::to_string(swapped) +
               " swapped pairs/tuples have equal hashes (bound 1%): the hash does not depend on "
               "component order";
    if (ordered)
    {
        auto gs = grid_values(type, true);
        std::vector<T> os;
        for (auto& v : gs)
            os.push_back(make<T>(v));
        std::uint64_t triples = 0;
        for (std::size_t i = 0; i < gs.size(); ++i)
            for (std::size_t j = 0; j < gs.size(); ++j)
                for (std::size_t k = 0; k < gs.size(); ++k)
                {
                    ++triples;
                    if (os[i] < os[j] && os[j] < os[k] && !(os[i] < os[k]))
                        return std::string("order is not transitive: ") + val_str(gs[i]) + " < " +
                               val_str(gs[j]) + " < " + val_str(gs[k]);
                    if (os[i] <= os[j] && os[j] <= os[k] && !(os[i] <= os[k]))
                        return std::string("<= is not transitive: ") + val_str(gs[i]) + ", " +
                               val_str(gs[j]) + ", " + val_str(gs[k]);
                }
        ctx.add("grid:triples", triples);
    }
    return "";
}

// ---------------------------------------------------------------- in-place modification

// the hash is a function of the *current* member tuple: hash, modify members in place, hash again
static void mutate(S1& t, const Val& v)
{
    t.a = static_cast<int>(v.i);
}
static void mutate(S2& t, const Val& v)
{
    t.a = static_cast<int>(v.i);
    t.s = v.s;
}
static void mutate(S3& t, const Val& v)
{
    std::get<0>(t.as_tuple()) = static_cast<std::int8_t>(v.i); // through the tuple of references
    t.s = v.s;
    t.d = DTAB[v.d % NDTAB];
}
static void mutate(S5& t, const Val& v)
{
    t.a = wide(v);
    t.s = v.s;
}
static void mutate(S4& t, const Val& v)
{
    std::get<0>(t.m) = std::make_pair(static_cast<int>(v.i), v.s);
    std::get<1>(t.m) = make_var(v);
}

template <class T>
static std::string run_mutation(const Case& c, vf::Ctx& ctx)
{
    T obj = make<T>(c.x);
    std::size_t h0 = nitro::lang::hash(obj);
    nitro::lang::unordered_set<T> set;
    set.insert(obj); // hashes it as well
    mutate(obj, c.y);
    T fresh = make<T>(c.y);
    ctx.tag("mutation:hash-modify-hash");
    if (!(obj == fresh))
        return std::string("harness: in-place modification did not produce the intended value (") +
               type_name(c.type) + ")";
    if (nitro::lang::hash(obj) != nitro::lang::hash(fresh))
        return std::string("a value that was hashed, then modified in place, hashes differently from an "
                           "equal freshly built value: ") +
               type_name(c.type) + " " + val_str(c.x) + " -> " + val_str(c.y);
    (void)h0;
    // swap two members' worth: modify back and forth
    mutate(obj, c.x);
    if (nitro::lang::hash(obj) != nitro::lang::hash(make<T>(c.x)))
        return std::string("hash does not follow the member tuple after modifying it back: ") +
               type_name(c.type);
    // a copy taken after hashing and then modified must follow its own members, too
    T copy = obj;
    (void)nitro::lang::hash(copy);
    mutate(copy, c.z);
    if (nitro::lang::hash(copy) != nitro::lang::hash(make<T>(c.z)))
        return std::string("hash of a modified copy does not follow its members: ") + type_name(c.type);
    return "";
}

// ---------------------------------------------------------------- random cases

template <class T>
static std::string run_random(const Case& c, bool ordered, vf::Ctx& ctx)
{
    T x = make<T>(c.x), y = make<T>(c.y), z = make<T>(c.z);
    std::string m = Ops<T>::pair_laws(c.type, c.x, c.y, x, y, ordered);
    if (m.empty())
        m = Ops<T>::pair_laws(c.type, c.y, c.z, y, z, ordered);
    if (m.empty())
        m = Ops<T>::pair_laws(c.type, c.x, c.x, x, make<T>(c.x), ordered);
    if (!m.empty())
        return m;
    if (ref_cmp(c.type, c.x, c.y) == 0)
    {
        ctx.tag("pair:equal-values-distinct-objects");
        ctx.mark_nontrivial();
    }
    if (components_differing(c.type, c.x, c.y) == 1)
    {
        ctx.tag("pair:one-component-differs");
        ctx.mark_nontrivial();
    }
    if (ordered)
    {
        if (x < y && y < z && !(x < z))
            return "order is not transitive: " + describe(c);
        if (x <= y && y <= z && !(x <= z))
            return "<= is not transitive: " + describe(c);
    }
    return "";
}

// hash containers: needs operator== (the tuple_operators types and std types have it)
template <class T>
static std::string run_container(const Case& c, vf::Ctx& ctx)
{
    nitro::lang::unordered_set<T> set;
    nitro::lang::unordered_map<T, int> map;
    std::vector<Val> distinct;
    for (auto& v : c.members)
    {
        bool dup = false;
        for (auto& w : distinct)
            if (ref_cmp(c.type, v, w) == 0)
                dup = true;
        if (!dup)
            distinct.push_back(v);
        set.insert(make<T>(v));
        map[make<T>(v)] = static_cast<int>(distinct.size());
    }
    if (set.size() != distinct.size() || map.size() != distinct.size())
        return "hash container holds " + std::to_string(set.size()) + " keys, " +
               std::to_string(distinct.size()) + " distinct values were inserted (" +
               type_name(c.type) + ")";
    auto probe = [&](const Val& v) -> std::string {
        bool member = false;
        for (auto& w : distinct)
            if (ref_cmp(c.type, v, w) == 0)
                member = true;
        T key = make<T>(v);
        if ((set.count(key) == 1) != member || (map.count(key) == 1) != member)
            return std::string("hash container ") + (member ? "does not find an inserted key " :
                                                              "finds a key that was never inserted ") +
                   val_str(v) + " (" + type_name(c.type) + ")";
        return "";
    };
    for (auto& v : c.members)
    {
        std::string m = probe(v);
        if (!m.empty())
            return m;
    }
    for (auto& v : c.probes)
    {
        std::string m = probe(v);
        if (!m.empty())
            return m;
    }
    if (distinct.size() >= 2)
        ctx.tag("container:filled");
    return "";
}

static std::string run_ptr(const Case& c, vf::Ctx& ctx)
{
    // smart pointers hash their pointee: equal values in distinct pointees hash equal
    auto u1 = std::make_unique<S2>(c.x), u2 = std::make_unique<S2>(c.y);
    auto s1 = std::make_shared<S2>(c.x), s2 = std::make_shared<S2>(c.y);
    std::size_t hx = nitro::lang::hash(S2(c.x)), hy = nitro::lang::hash(S2(c.y));
    if (nitro::lang::hash(u1) != hx || nitro::lang::hash(s1) != hx || nitro::lang::hash(u2) != hy ||
        nitro::lang::hash(s2) != hy)
        return "hash of a smart pointer differs from the hash of its pointee: " + describe(c);
    if (ref_cmp(T_S2, c.x, c.y) == 0)
    {
        ctx.mark_nontrivial();
        ctx.tag("pair:equal-values-distinct-objects");
        if (nitro::lang::hash(u1) != nitro::lang::hash(u2) || nitro::lang::hash(s1) != nitro::lang::hash(s2))
            return "equal values behind distinct pointers hash differently: " + describe(c);
    }
    else if (components_differing(T_S2, c.x, c.y) == 1)
        ctx.mark_nontrivial();
    // a shared_ptr that points at an object without owning it (aliasing constructor with an empty owner)
    {
        S2 obj(c.x), obj2(c.y);
        std::shared_ptr<S2> alias(std::shared_ptr<void>(), &obj), alias2(std::shared_ptr<void>(), &obj2);
        ctx.tag("ptr:non-owning-alias");
        if (nitro::lang::hash(alias) != hx || nitro::lang::hash(alias2) != hy)
            return "hash of a non-owning shared_ptr differs from the hash of its pointee: " + describe(c);
        if (nitro::lang::hash(std::make_pair(1, alias)) != nitro::lang::hash(std::make_pair(1, s1)))
            return "a pair holding a non-owning shared_ptr hashes differently from one holding an owning pointer to an "
                   "equal value: " + describe(c);
    }
    // pointers to pairs, tuples, variants and pointers hash through their pointee, too
    {
        Pr pv = make<Pr>(c.x);
        Tup tv = make<Tup>(c.x);
        Var vv = make<Var>(c.x);
        auto up = std::make_unique<Pr>(pv);
        auto st = std::make_shared<Tup>(tv);
        auto uv = std::make_unique<Var>(vv);
        auto pp = std::make_shared<std::unique_ptr<Pr>>(std::make_unique<Pr>(pv));
        if (nitro::lang::hash(up) != nitro::lang::hash(pv) || nitro::lang::hash(st) != nitro::lang::hash(tv) ||
            nitro::lang::hash(uv) != nitro::lang::hash(vv) || nitro::lang::hash(pp) != nitro::lang::hash(pv))
            return "hash of a smart pointer to a pair/tuple/variant/pointer differs from the hash of its "
                   "pointee: " + describe(c);
        auto up2 = std::make_unique<Pr>(pv);
        if (nitro::lang::hash(up) != nitro::lang::hash(up2))
            return "equal pairs behind distinct pointers hash differently: " + describe(c);
    }
    // pairs of integers of different widths: equal values hash equal whatever lies in the
    // padding bytes of the storage they were built in
    {
        alignas(16) unsigned char b1[64], b2[64];
        std::memset(b1, 0x00, sizeof b1);
        std::memset(b2, 0xff, sizeof b2);
        using P1 = std::pair<char, int>;
        using P2 = std::pair<std::int64_t, short>;
        using P3 = std::pair<bool, long long>;
        auto* p1a = new (b1) P1(static_cast<char>(c.x.i), static_cast<int>(c.y.i));
        auto* p1b = new (b2) P1(static_cast<char>(c.x.i), static_cast<int>(c.y.i));
        bool bad = nitro::lang::hash(*p1a) != nitro::lang::hash(*p1b);
        auto* p2a = new (b1) P2(wide(c.x), static_cast<short>(c.y.i));
        auto* p2b = new (b2) P2(wide(c.x), static_cast<short>(c.y.i));
        bad |= nitro::lang::hash(*p2a) != nitro::lang::hash(*p2b);
        auto* p3a = new (b1) P3(c.x.i % 2 != 0, wide(c.y));
        auto* p3b = new (b2) P3(c.x.i % 2 != 0, wide(c.y));
        bad |= nitro::lang::hash(*p3a) != nitro::lang::hash(*p3b);
        ctx.tag("pair:padded-integers");
        if (bad)
            return "equal pairs of integers of different widths hash differently (the hash depends on "
                   "padding bytes): " + describe(c);
    }
    return "";
}

// the hash depends on every part of a long text component: single-character variants at 64
// positions spread over the text hash differently from the original (up to rare collisions)
template <class T>
static std::string run_long_text(const Case& c, vf::Ctx& ctx)
{
    if (c.x.s.size() <= 64 || (c.type == T_VARIANT && c.x.alt % 2 == 0))
        return "";
    ctx.tag("component:long-text");
    ctx.mark_nontrivial();
    std::size_t base = nitro::lang::hash(make<T>(c.x));
    int collide = 0;
    std::size_t first = 0;
    for (int k = 0; k < 64; ++k)
    {
        Val v = c.x;
        std::size_t pos = (static_cast<std::size_t>(k) * v.s.size()) / 64;
        v.s[pos] = static_cast<char>(v.s[pos] ^ 1);
        if (nitro::lang::hash(make<T>(v)) == base)
        {
            if (!collide)
                first = pos;
            ++collide;
        }
    }
    if (collide > 2)
        return std::string(type_name(c.type)) + ": " + std::to_string(collide) +
               " of 64 values that differ from the original in one character of a text component of " +
               std::to_string(c.x.s.size()) + " characters hash like the original (first at position " +
               std::to_string(first) + "): the hash does not depend on every component";
    return "";
}

// the operators are those of the member tuple also where the member tuple is not totally ordered
// (a NaN member), for distinct objects and for an object compared with itself
static std::string run_nan(const Case& c, vf::Ctx& ctx)
{
    ctx.tag("member:nan");
    S3 x(c.x), y(c.y);
    const double nan = std::nan("");
    x.d = nan;
    if (c.z.i % 2)
        y.d = nan;
    auto agree = [&](S3& a, S3& b, const char* what) -> std::string {
        auto ta = std::make_tuple(a.a, a.s, a.d), tb = std::make_tuple(b.a, b.s, b.d);
        bool ok = (a < b) == (ta < tb) && (a > b) == (ta > tb) && (a == b) == (ta == tb) && (a != b) == (ta != tb) &&
                  (a <= b) == (ta <= tb) && (a >= b) == (ta >= tb);
        if (!ok)
            return std::string("S3 with a NaN member, ") + what + ": operators < > == != <= >= give " +
                   std::to_string(a < b) + std::to_string(a > b) + std::to_string(a == b) + std::to_string(a != b) +
                   std::to_string(a <= b) + std::to_string(a >= b) + ", the member tuples give " +
                   std::to_string(ta < tb) + std::to_string(ta > tb) + std::to_string(ta == tb) +
                   std::to_string(ta != tb) + std::to_string(ta <= tb) + std::to_string(ta >= tb) + " (x=" +
                   val_str(c.x) + " y=" + val_str(c.y) + ")";
        return "";
    };
    std::string m = agree(x, y, "two objects");
    if (m.empty())
        m = agree(y, x, "two objects");
    if (m.empty())
        m = agree(x, x, "an object and itself");
    return m;
}

// a variant left without a value by a throwing emplace is still a value: equal to every other
// valueless variant, so it hashes like them and can be a key
struct TV : nitro::lang::tuple_operators<TV>
{
    explicit TV(int v) : a(v)
    {
    }
    TV(const TV& o) : a(o.a)
    {
    }
    TV(TV&& o) : a(o.a) // may throw as far as the type system knows
    {
    }
    TV& operator=(const TV&) = default;
    auto as_tuple()
    {
        return std::tie(a);
    }
    int a;
};
struct ThrowsOnConversion
{
    operator TV() const
    {
        throw 42;
    }
};
using VarT = std::variant<int, TV>;
static std::string run_valueless(const Case& c, vf::Ctx& ctx)
{
    VarT v1(static_cast<int>(c.x.i)), v2(std::in_place_index<1>, TV(static_cast<int>(c.y.i)));
    for (VarT* v : { &v1, &v2 })
    {
        try
        {
            v->emplace<1>(ThrowsOnConversion{});
        }
        catch (int)
        {
        }
    }
    if (!v1.valueless_by_exception() || !v2.valueless_by_exception())
        return ""; // this standard library keeps the old value: nothing to check
    ctx.tag("variant:valueless");
    try
    {
        if (nitro::lang::hash(v1) != nitro::lang::hash(v2))
            return "two valueless variants compare equal but hash differently";
        auto t1 = std::make_tuple(1, v1), t2 = std::make_tuple(1, v2);
        if (nitro::lang::hash(t1) != nitro::lang::hash(t2))
            return "two equal tuples holding a valueless variant hash differently";
        nitro::lang::unordered_set<VarT> set;
        set.insert(v1);
        set.insert(VarT(3));
        if (set.count(v2) != 1 || set.count(VarT(3)) != 1 || set.count(VarT(4)) != 0)
            return "hash container keyed by variants does not find an inserted valueless key";
    }
    catch (const std::exception& e)
    {
        return std::string("hashing a valueless variant (equal to every other valueless variant) raised: ") + e.what();
    }
    return "";
}

// a variant with many alternatives: values held at the late indices hash like values, not like nothing
using BigVar = std::variant<int, long, short, char, bool, float, double, unsigned, std::string, long long,
                            unsigned char, std::pair<int, int>>;
static BigVar big_var(int index, long long v, const std::string& s)
{
    switch (index % 12)
    {
    case 0:
        return BigVar(std::in_place_index<0>, static_cast<int>(v));
    case 1:
        return BigVar(std::in_place_index<1>, static_cast<long>(v));
    case 2:
        return BigVar(std::in_place_index<2>, static_cast<short>(v));
    case 3:
        return BigVar(std::in_place_index<3>, static_cast<char>(v));
    case 4:
        return BigVar(std::in_place_index<4>, v % 2 != 0);
    case 5:
        return BigVar(std::in_place_index<5>, static_cast<float>(v % 1000));
    case 6:
        return BigVar(std::in_place_index<6>, static_cast<double>(v % 100000));
    case 7:
        return BigVar(std::in_place_index<7>, static_cast<unsigned>(v));
    case 8:
        return BigVar(std::in_place_index<8>, s + std::to_string(v));
    case 9:
        return BigVar(std::in_place_index<9>, v * 1000003);
    case 10:
        return BigVar(std::in_place_index<10>, static_cast<unsigned char>(v));
    default:
        return BigVar(std::in_place_index<11>, std::make_pair(static_cast<int>(v), 1));
    }
}
static std::string run_big_variant(const Case& c, vf::Ctx& ctx)
{
    ctx.tag("variant:twelve-alternatives");
    // per alternative: 24 distinct values hash to (nearly) as many hashes; equal values hash equal
    for (int index = 0; index < 12; ++index)
    {
        if (index == 4)
            continue; // bool has two values
        std::set<std::size_t> hashes;
        for (int k = 0; k < 24; ++k)
        {
            BigVar a = big_var(index, c.x.i % 1000 + k, c.x.s), b = big_var(index, c.x.i % 1000 + k, c.x.s);
            if (nitro::lang::hash(a) != nitro::lang::hash(b))
                return "equal variants (alternative " + std::to_string(index) + ") hash differently";
            hashes.insert(nitro::lang::hash(std::make_tuple(7, a)));
        }
        if (hashes.size() < 22)
            return "24 different values held as alternative " + std::to_string(index) +
                   " of a variant with twelve alternatives give only " + std::to_string(hashes.size()) +
                   " different hashes: the hash does not depend on the value";
    }
    nitro::lang::unordered_set<BigVar> set;
    for (int k = 0; k < 12; ++k)
        set.insert(big_var(k, c.y.i % 50, c.y.s));
    for (int k = 0; k < 12; ++k)
        if (set.count(big_var(k, c.y.i % 50, c.y.s)) != 1)
            return "a hash container keyed by a variant with twelve alternatives does not find an inserted key (alternative " +
                   std::to_string(k) + ")";
    return "";
}

// wide-character strings as members: compared by code unit, like the member tuple
struct SW : nitro::lang::tuple_operators<SW>
{
    SW(std::u16string a_, std::wstring b_) : a(std::move(a_)), b(std::move(b_))
    {
    }
    auto as_tuple()
    {
        return std::tie(a, b);
    }
    std::u16string a;
    std::wstring b;
};
static std::string run_wide_strings(const Case& c, vf::Ctx& ctx)
{
    ctx.tag("member:wide-strings");
    static const char16_t units[] = { u'A', u'Z', u'a', 0x00ff, 0x0100, 0x0141, 0x01ff, 0x0200, 0x20ac, 0xff21 };
    auto mk16 = [&](long long seed) {
        std::u16string r;
        for (int i = 0; i < 1 + static_cast<int>((seed / 7) % 3); ++i)
            r.push_back(units[static_cast<std::size_t>((seed >> (4 * i)) & 0xffff) % 10]);
        return r;
    };
    auto mkw = [&](long long seed) {
        std::wstring r;
        for (int i = 0; i < 1 + static_cast<int>((seed / 5) % 3); ++i)
            r.push_back(static_cast<wchar_t>(units[static_cast<std::size_t>((seed >> (3 * i)) & 0xffff) % 10]));
        return r;
    };
    long long sx = c.x.i < 0 ? -c.x.i : c.x.i, sy = c.y.i < 0 ? -c.y.i : c.y.i;
    for (int k = 0; k < 6; ++k)
    {
        SW x(mk16(sx + k), mkw(sx + 3 * k)), y(c.z.i % 2 ? mk16(sx + k) : mk16(sy + k), mkw(sy + k));
        auto tx = std::make_tuple(x.a, x.b), ty = std::make_tuple(y.a, y.b);
        bool ok = (x < y) == (tx < ty) && (x > y) == (tx > ty) && (x == y) == (tx == ty) && (x != y) == (tx != ty) &&
                  (x <= y) == (tx <= ty) && (x >= y) == (tx >= ty);
        if (!ok)
            return "a type with u16string and wstring members: the operators disagree with the member tuple for code units " +
                   std::to_string(static_cast<unsigned>(x.a[0])) + " vs " + std::to_string(static_cast<unsigned>(y.a[0]));
        if ((x == y) && nitro::lang::hash(x) != nitro::lang::hash(y))
            return "equal values with wide-string members hash differently";
    }
    return "";
}

static Val gen_val(vf::Src& src, bool wide)
{
    Val v;
    static const long long edge[] = { INT_MIN, -2, -1, 0, 1, 2, 3, 1 << 20, INT_MAX, 127, -128, 128, 255 };
    v.i = src.coin(wide ? 50 : 100) ? edge[src.index(13)] : static_cast<long long>(src.range(0, 0xffffffffull)) - 0x80000000ll;
    static const std::vector<std::string> ss = { "", "a", "b", "ab", "ba", "aa", "\xff", "a\x80", "abc" };
    v.s = src.coin(70) ? src.pick(ss) : src.bytes_nonul(0, 6);
    if (src.coin(6))
    {
        // a long text: longer than any small-string buffer or sampling window
        static const int lens[] = { 65, 129, 200, 257, 1000 };
        int n = lens[src.index(5)];
        v.s.clear();
        for (int i = 0; i < n; ++i)
            v.s.push_back(static_cast<char>('a' + (i * 7 + n) % 23));
    }
    v.d = src.irange(0, NDTAB - 1);
    v.alt = src.irange(0, 1);
    return v;
}

Case generate(vf::Src& src, const std::string& mode)
{
    Case c;
    if (mode == "grid")
    {
        c.grid = true;
        c.type = src.irange(0, T_COUNT - 2); // every type with a grid
        if (c.type == T_PTR)
            c.type = T_S5;
        return c;
    }
    c.type = src.irange(0, T_COUNT - 1);
    c.x = gen_val(src, true);
    // y: equal, one component changed, or unrelated
    switch (src.weighted({ 30, 40, 30 }))
    {
    case 0:
        c.y = c.x;
        break;
    case 1:
        c.y = c.x;
        switch (src.irange(0, 3))
        {
        case 0:
            c.y.i = gen_val(src, true).i;
            break;
        case 1:
            if (c.x.s.size() > 64 && src.coin(70))
                // one character somewhere inside a long text
                c.y.s[src.index(c.y.s.size())] ^= 1;
            else
                c.y.s = gen_val(src, true).s;
            break;
        case 2:
            c.y.d = src.irange(0, NDTAB - 1);
            break;
        default:
            c.y.alt = 1 - c.y.alt;
        }
        break;
    default:
        c.y = gen_val(src, true);
    }
    c.z = src.coin(40) ? c.y : gen_val(src, true);
    int n = src.irange(0, 8);
    for (int i = 0; i < n; ++i)
        c.members.push_back(src.coin(25) && !c.members.empty() ? c.members[src.index(c.members.size())]
                                                                : gen_val(src, false));
    n = src.irange(0, 4);
    for (int i = 0; i < n; ++i)
        c.probes.push_back(gen_val(src, false));
    return c;
}

std::string check(const Case& c, vf::Ctx& ctx)
{
    ctx.tag(std::string("type:") + type_name(c.type));
    if (c.grid)
    {
        ctx.mark_nontrivial();
        switch (c.type)
        {
        case T_S1:
            return run_grid<S1>(c.type, true, ctx);
        case T_S2:
            return run_grid<S2>(c.type, true, ctx);
        case T_S3:
            return run_grid<S3>(c.type, true, ctx);
        case T_S4:
            return run_grid<S4>(c.type, true, ctx);
        case T_TUPLE:
            return run_grid<Tup>(c.type, false, ctx);
        case T_PAIR:
            return run_grid<Pr>(c.type, false, ctx);
        case T_S5:
            return run_grid<S5>(c.type, true, ctx);
        default:
            return run_grid<Var>(c.type, false, ctx);
        }
    }
    std::string m;
    switch (c.type)
    {
    case T_S1:
        m = run_random<S1>(c, true, ctx);
        if (m.empty())
            m = run_container<S1>(c, ctx);
        if (m.empty())
            m = run_mutation<S1>(c, ctx);
        break;
    case T_S2:
        m = run_random<S2>(c, true, ctx);
        if (m.empty())
            m = run_container<S2>(c, ctx);
        if (m.empty())
            m = run_mutation<S2>(c, ctx);
        if (m.empty())
            m = run_long_text<S2>(c, ctx);
        break;
    case T_S3:
        m = run_random<S3>(c, true, ctx);
        if (m.empty())
            m = run_container<S3>(c, ctx);
        if (m.empty())
            m = run_mutation<S3>(c, ctx);
        if (m.empty())
            m = run_long_text<S3>(c, ctx);
        if (m.empty())
            m = run_nan(c, ctx);
        if (m.empty())
            m = run_wide_strings(c, ctx);
        break;
    case T_S4:
        m = run_random<S4>(c, true, ctx);
        if (m.empty())
            m = run_container<S4>(c, ctx);
        if (m.empty())
            m = run_mutation<S4>(c, ctx);
        break;
    case T_TUPLE:
        m = run_random<Tup>(c, false, ctx);
        if (m.empty())
            m = run_container<Tup>(c, ctx);
        if (m.empty())
            m = run_long_text<Tup>(c, ctx);
        break;
    case T_PAIR:
        m = run_random<Pr>(c, false, ctx);
        if (m.empty())
            m = run_container<Pr>(c, ctx);
        if (m.empty())
            m = run_long_text<Pr>(c, ctx);
        break;
    case T_VARIANT:
        m = run_random<Var>(c, false, ctx);
        if (m.empty())
            m = run_container<Var>(c, ctx);
        if (m.empty())
            m = run_long_text<Var>(c, ctx);
        if (m.empty())
            m = run_valueless(c, ctx);
        if (m.empty())
            m = run_big_variant(c, ctx);
        break;
    case T_S5:
        m = run_random<S5>(c, true, ctx);
        if (m.empty())
            m = run_container<S5>(c, ctx);
        if (m.empty())
            m = run_mutation<S5>(c, ctx);
        if (m.empty())
            m = run_long_text<S5>(c, ctx);
        break;
    default:
        m = run_ptr(c, ctx);
    }
    return m;
}
} // namespace h

#include "common/vmain.hpp"
