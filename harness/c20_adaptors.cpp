// C20 — nitro::lang::enumerate and nitro::lang::reverse visit every element
// once, in the right order, in place. Container kind x value category x length
// are enumerated (and sampled with rapidcheck over the element values); the
// reference is the index/order of the plain container; aliasing is probed by
// address identity and write-through; temporaries are read under ASan.
#include "common/vcommon.hpp"

#include <memory>
#include <nitro/lang/enumerate.hpp>
#include <nitro/lang/fixed_vector.hpp>
#include <nitro/lang/reverse.hpp>

#include <array>
#include <deque>
#include <list>
#include <map>

namespace h
{
enum Kind
{
    VECTOR = 0,
    DEQUE,
    LIST,
    MAP,
    STRING,
    STD_ARRAY,
    BUILTIN_ARRAY,
    INIT_LIST,
    FIXED_VECTOR,
    VECTOR_STRING,
    CHAR_ARRAY, // char[K], const char[K]: byte tables, possibly ending in a zero byte
    HUGE_RANGE, // a computed range of more than 2^32 elements (thorough tier only)
    VECTOR_BOOL, // std::vector<bool>: the elements are proxy objects handed out by value
    INIT_LIST_STRING, // a braced list of std::string objects built at run time
    KIND_COUNT
};
enum Cat
{
    LVALUE = 0,
    CONST_LVALUE,
    RVALUE,
    CONST_RVALUE // a const-qualified temporary, e.g. the result of a function returning const T
};
enum What
{
    ENUMERATE = 0,
    REVERSE
};

static const char* kind_name(int k)
{
    static const char* n[] = { "vector<int>",  "deque<int>",   "list<int>",       "map<int,int>",
                               "string",       "std::array",   "int[K]",          "initializer_list",
                               "fixed_vector<int>", "vector<string>", "char[K]", "computed range of 2^32+5 elements", "vector<bool>",
                               "initializer_list<string>" };
    return k >= 0 && k < KIND_COUNT ? n[k] : "?";
}

struct Case
{
    int kind = 0, cat = 0, what = 0;
    int style = 0;     // 0 range-for, 1 explicit iterator advanced by post-increment
    int extra_cap = 0; // fixed_vector: capacity = length + extra_cap
    std::vector<int> vals; // distinct element values, length = container length

    template <class A>
    void io(A& a)
    {
        a("kind", kind);
        a("cat", cat);
        a("what", what);
        a("style", style);
        a("extra_cap", extra_cap);
        a("vals", vals);
    }
};

const char* property_ids()
{
    return "C20";
}

std::string describe(const Case& c)
{
    std::ostringstream o;
    o << (c.what == ENUMERATE ? "enumerate" : "reverse") << "("
      << (c.cat == LVALUE ? "lvalue " : c.cat == CONST_LVALUE ? "const " : c.cat == RVALUE ? "temporary " : "const temporary ")
      << (c.style == 1 ? "[it++ loop] " : c.style == 2 ? "[const loop variable] " : c.style == 3 ? "[range object moved first] " :
          c.style == 4 ? "[a second range of the same type and length walked inside the loop] " : "")
      << kind_name(c.kind) << " of length " << c.vals.size();
    if (c.kind == FIXED_VECTOR)
        o << " capacity " << c.vals.size() + static_cast<std::size_t>(c.extra_cap);
    o << ") values [";
    for (std::size_t i = 0; i < c.vals.size(); ++i)
        o << (i ? "," : "") << c.vals[i];
    o << "]";
    return o.str();
}

static bool static_len_ok(int kind, std::size_t n)
{
    if (kind == STD_ARRAY)
        return n == 0 || n == 1 || n == 2 || n == 3 || n == 7 || n == 100;
    if (kind == INIT_LIST_STRING)
        return n >= 1 && n <= 3;
    if (kind == BUILTIN_ARRAY || kind == CHAR_ARRAY)
        return n == 1 || n == 2 || n == 3 || n == 7;
    if (kind == INIT_LIST)
        return n <= 4;
    return true;
}

Case generate(vf::Src& src, const std::string& mode)
{
    Case c;
    bool ex = mode == "ex";
    if (mode == "huge")
    {
        c.kind = HUGE_RANGE;
        return c;
    }
    c.kind = src.irange(0, KIND_COUNT - 1);
    if (c.kind == HUGE_RANGE)
        c.kind = VECTOR;
    c.cat = src.irange(0, 3);
    c.what = src.irange(0, 1);
    c.style = src.irange(0, 4);
    int n;
    if (c.kind == STD_ARRAY)
        n = std::vector<int>{ 0, 1, 2, 3, 7, 100 }[src.index(6)];
    else if (c.kind == INIT_LIST_STRING)
        n = src.irange(1, 3);
    else if (c.kind == BUILTIN_ARRAY || c.kind == CHAR_ARRAY)
        n = std::vector<int>{ 1, 2, 3, 7 }[src.index(4)];
    else if (c.kind == INIT_LIST)
        n = src.irange(0, 4);
    else
        n = (ex || src.coin(94)) ? src.irange(0, 8) : std::vector<int>{ 15, 16, 17, 33, 64, 100 }[src.index(6)];
    if ((c.kind == BUILTIN_ARRAY || c.kind == CHAR_ARRAY) && c.cat >= RVALUE)
        c.cat = c.cat == RVALUE ? LVALUE : CONST_LVALUE; // there are no array temporaries
    if (c.kind == INIT_LIST || c.kind == INIT_LIST_STRING)
        c.cat = RVALUE; // a braced list is always a temporary
    if (c.kind == FIXED_VECTOR)
        c.extra_cap = src.irange(0, 2);
    for (int i = 0; i < n; ++i)
    {
        if (ex)
            c.vals.push_back(c.kind == CHAR_ARRAY && i == n - 1 ? 0 : 10 * (i + 1) + (i % 3)); // fixed distinct values
        else if (c.kind == CHAR_ARRAY)
            // distinct bytes; every other table ends in a zero byte (it is data, not a terminator)
            c.vals.push_back(i == n - 1 && src.coin(50) ? 0 : 33 + (src.irange(0, 9) + 10 * i) % 90);
        else if (c.kind == STRING)
            c.vals.push_back(33 + (src.irange(0, 9) + 10 * i) % 90); // printable, distinct
        else
            c.vals.push_back(1 + i * 1000 + src.irange(0, 999)); // distinct by construction
    }
    return c;
}

// ---------------------------------------------------------------- element access

static long val(int x)
{
    return x;
}
static long val(char x)
{
    return static_cast<unsigned char>(x);
}
static long val(const std::pair<const int, int>& p)
{
    return p.second;
}
static long val(const std::string& s)
{
    return std::atol(s.c_str());
}
template <class T>
static long val(const std::reference_wrapper<T>& r)
{
    return val(r.get());
}

static void setv(int& x, long v)
{
    x = static_cast<int>(v);
}
static void setv(char& x, long v)
{
    x = static_cast<char>(v);
}
static void setv(std::pair<const int, int>& p, long v)
{
    p.second = static_cast<int>(v);
}
static void setv(std::string& s, long v)
{
    s = std::to_string(v) + std::string(40, '.');
}
template <class T>
static void setv(const std::reference_wrapper<T>& r, long v)
{
    setv(r.get(), v);
}

template <class T>
static const void* addr(const T& x)
{
    return &x;
}
template <class T>
static const void* addr(const std::reference_wrapper<T>& r)
{
    return &r.get();
}

static long write_value(long old, int kind)
{
    return kind == STRING || kind == CHAR_ARRAY ? 33 + (old + 7) % 90 : old + 500000;
}

// ---------------------------------------------------------------- builders

template <class C>
struct Make;
template <>
struct Make<std::vector<int>>
{
    static std::vector<int> make(const Case& c)
    {
        return c.vals;
    }
};
template <>
struct Make<std::deque<int>>
{
    static std::deque<int> make(const Case& c)
    {
        return std::deque<int>(c.vals.begin(), c.vals.end());
    }
};
template <>
struct Make<std::list<int>>
{
    static std::list<int> make(const Case& c)
    {
        return std::list<int>(c.vals.begin(), c.vals.end());
    }
};
template <>
struct Make<std::map<int, int>>
{
    static std::map<int, int> make(const Case& c)
    {
        std::map<int, int> m;
        for (std::size_t i = 0; i < c.vals.size(); ++i)
            m[static_cast<int>(i)] = c.vals[i];
        return m;
    }
};
template <>
struct Make<std::string>
{
    static std::string make(const Case& c)
    {
        std::string s;
        for (int v : c.vals)
            s.push_back(static_cast<char>(v));
        return s;
    }
};
template <>
struct Make<std::vector<bool>>
{
    static std::vector<bool> make(const Case& c)
    {
        std::vector<bool> r;
        for (int v : c.vals)
            r.push_back(v % 3 == 0);
        return r;
    }
};
template <>
struct Make<std::vector<std::string>>
{
    static std::vector<std::string> make(const Case& c)
    {
        std::vector<std::string> r;
        for (int v : c.vals)
            r.push_back(std::to_string(v) + std::string(40, '.')); // heap allocated
        return r;
    }
};
template <>
struct Make<nitro::lang::fixed_vector<int>>
{
    static nitro::lang::fixed_vector<int> make(const Case& c)
    {
        nitro::lang::fixed_vector<int> f(c.vals.size() + static_cast<std::size_t>(c.extra_cap));
        for (int v : c.vals)
            f.emplace_back(v);
        return f;
    }
};
template <std::size_t K>
struct Make<std::array<int, K>>
{
    static std::array<int, K> make(const Case& c)
    {
        std::array<int, K> a{};
        for (std::size_t i = 0; i < K; ++i)
            a[i] = c.vals[i];
        return a;
    }
};

// ---------------------------------------------------------------- generic oracles

struct Result
{
    std::string err;
    bool fail(const std::string& m)
    {
        if (err.empty())
            err = m;
        return false;
    }
};

static std::vector<long> expected(const Case& c, bool reversed)
{
    std::vector<long> e(c.vals.begin(), c.vals.end());
    if (reversed)
        std::reverse(e.begin(), e.end());
    return e;
}

static std::string seq(const std::vector<long>& v)
{
    std::string r = "[";
    for (std::size_t i = 0; i < v.size(); ++i)
        r += (i ? "," : "") + std::to_string(v[i]);
    return r + "]";
}

// Visitors: fed once per visited element by a loop written at the call site. The loops
// are genuine range-for statements (or their exact expansion with `auto&&`) over the
// adaptor expression, so that a temporary container lives exactly as long as the language
// gives it - passing the adaptor to a helper function would extend the temporary's life to
// the end of the call and hide dangling references.
struct EnumVisitor
{
    const Case& c;
    Result& r;
    const char* how;
    const std::vector<const void*>* addrs;
    std::vector<long> got;
    std::size_t i = 0;
    EnumVisitor(const Case& c_, Result& r_, const char* how_, const std::vector<const void*>* a)
    : c(c_), r(r_), how(how_), addrs(a)
    {
    }
    template <class X>
    bool operator()(X&& x)
    {
        if (i > c.vals.size())
            return false; // runaway
        if (x.index() != i)
            r.fail(std::string("enumerate ") + how + ": visit " + std::to_string(i) +
                   " carries index " + std::to_string(x.index()));
        got.push_back(val(x.value()));
        if (addrs && i < addrs->size() && addr(x.value()) != (*addrs)[i])
            r.fail(std::string("enumerate ") + how + ": value of visit " + std::to_string(i) +
                   " does not alias the container element");
        ++i;
        return true;
    }
    void finish()
    {
        if (got != expected(c, false))
            r.fail(std::string("enumerate ") + how + " visits " + seq(got) + ", container holds " +
                   seq(expected(c, false)));
    }
};

struct RevVisitor
{
    const Case& c;
    Result& r;
    const char* how;
    const std::vector<const void*>* addrs;
    std::vector<long> got;
    std::size_t i = 0;
    RevVisitor(const Case& c_, Result& r_, const char* how_, const std::vector<const void*>* a)
    : c(c_), r(r_), how(how_), addrs(a)
    {
    }
    template <class X>
    bool operator()(X& x)
    {
        const std::size_t n = c.vals.size();
        if (i > n)
            return false;
        got.push_back(val(x));
        if (addrs && i < addrs->size() && addr(x) != (*addrs)[n - 1 - i])
            r.fail(std::string("reverse ") + how + ": visit " + std::to_string(i) +
                   " does not alias the container element");
        ++i;
        return true;
    }
    void finish()
    {
        if (got != expected(c, true))
            r.fail(std::string("reverse ") + how + " visits " + seq(got) + ", expected " +
                   seq(expected(c, true)));
    }
};

// Between the creation of a named range object and the loop over it, the stack below the current frame is
// overwritten: whatever the range object needs it must own (or the caller's range must still be alive).
__attribute__((noinline)) static void vf_scrub_stack()
{
    volatile unsigned char pad[24 * 1024];
    for (std::size_t i = 0; i < sizeof pad; i += 1)
        pad[i] = 0x5a;
}

// The two iteration styles: a range-for statement, or its expansion with an explicit
// iterator advanced by post-increment.
#define VF_WALK_ENUM(EXPR, HOW, ADDRS)                                                             \
    do                                                                                             \
    {                                                                                              \
        EnumVisitor vis(c, r, HOW, ADDRS);                                                         \
        if (c.style == 0)                                                                          \
        {                                                                                          \
            for (auto x : EXPR)                                                                    \
                if (!vis(x))                                                                       \
                    break;                                                                         \
        }                                                                                          \
        else if (c.style == 1)                                                                     \
        {                                                                                          \
            auto&& rg = EXPR;                                                                      \
            vf_scrub_stack();                                                                      \
            for (auto it = rg.begin(); it != rg.end(); it++)                                       \
                if (!vis(*it))                                                                     \
                    break;                                                                         \
        }                                                                                          \
        else if (c.style == 2)                                                                     \
        {                                                                                          \
            /* const loop variable: the const accessors of the visited pair */                    \
            for (const auto x : EXPR)                                                              \
                if (!vis(x))                                                                       \
                    break;                                                                         \
        }                                                                                          \
        else                                                                                       \
        {                                                                                          \
            /* the range object is moved into another object first, then iterated */              \
            auto rg = EXPR;                                                                        \
            vf_scrub_stack();                                                                      \
            auto rg2 = std::move(rg);                                                              \
            for (auto x : rg2)                                                                     \
                if (!vis(x))                                                                       \
                    break;                                                                         \
        }                                                                                          \
        vis.finish();                                                                              \
    } while (0)

#define VF_WALK_REV(EXPR, HOW, ADDRS)                                                              \
    do                                                                                             \
    {                                                                                              \
        RevVisitor vis(c, r, HOW, ADDRS);                                                          \
        if (c.style == 0 || c.style == 2)                                                          \
        {                                                                                          \
            for (auto& x : EXPR)                                                                   \
                if (!vis(x))                                                                       \
                    break;                                                                         \
        }                                                                                          \
        else if (c.style == 1)                                                                     \
        {                                                                                          \
            auto&& rg = EXPR;                                                                      \
            vf_scrub_stack();                                                                      \
            for (auto it = rg.begin(); it != rg.end(); it++)                                       \
                if (!vis(*it))                                                                     \
                    break;                                                                         \
        }                                                                                          \
        else                                                                                       \
        {                                                                                          \
            /* the range object is moved into another object first, then iterated */              \
            auto rg = EXPR;                                                                        \
            vf_scrub_stack();                                                                      \
            auto rg2 = std::move(rg);                                                              \
            for (auto& x : rg2)                                                                    \
                if (!vis(x))                                                                       \
                    break;                                                                         \
        }                                                                                          \
        vis.finish();                                                                              \
    } while (0)

template <class C>
static std::vector<const void*> addresses(const C& cont)
{
    std::vector<const void*> a;
    for (auto it = cont.begin(); it != cont.end(); ++it)
        a.push_back(&*it);
    return a;
}

template <class C>
static std::vector<long> contents(const C& cont)
{
    std::vector<long> v;
    for (auto it = cont.begin(); it != cont.end(); ++it)
        v.push_back(val(*it));
    return v;
}

// a function returning a const-qualified value: a const temporary
template <class C>
static const C make_const(const Case& c)
{
    return Make<C>::make(c);
}

template <class R1, class R2>
static void nested_walk(R1& a1, R2& a2, const std::vector<long>& e1, const std::vector<long>& e2, const Case& c,
                        Result& r);

template <class C>
static void run_container(const Case& c, Result& r)
{
    using nitro::lang::enumerate;
    using nitro::lang::reverse;
    if (c.style == 4 && c.cat <= CONST_LVALUE)
    {
        Case c2 = c;
        for (auto& v : c2.vals)
            v += 1;
        C cont = Make<C>::make(c), other = Make<C>::make(c2);
        auto e1 = contents(cont), e2 = contents(other);
        if (c.cat == CONST_LVALUE)
        {
            const C& k1 = cont;
            const C& k2 = other;
            nested_walk(k1, k2, e1, e2, c, r);
        }
        else
            nested_walk(cont, other, e1, e2, c, r);
        return;
    }
    if (c.cat == LVALUE)
    {
        C cont = Make<C>::make(c);
        auto a = addresses(cont);
        if (c.what == ENUMERATE)
        {
            VF_WALK_ENUM(enumerate(cont), "(lvalue)", &a);
            // write-through
            std::vector<long> want;
            for (auto x : enumerate(cont))
            {
                long nv = write_value(val(x.value()), c.kind);
                setv(x.value(), nv);
                want.push_back(nv);
            }
            if (contents(cont) != want)
                r.fail("enumerate (lvalue): writes through value() are not visible in the container: " +
                       seq(contents(cont)) + " expected " + seq(want));
        }
        else
        {
            VF_WALK_REV(reverse(cont), "(lvalue)", &a);
            std::vector<long> want;
            for (auto& x : reverse(cont))
            {
                long nv = write_value(val(x), c.kind);
                setv(x, nv);
                want.push_back(nv);
            }
            std::reverse(want.begin(), want.end());
            if (contents(cont) != want)
                r.fail("reverse (lvalue): writes are not visible in the container: " +
                       seq(contents(cont)) + " expected " + seq(want));
        }
    }
    else if (c.cat == CONST_LVALUE)
    {
        const C cont = Make<C>::make(c);
        auto a = addresses(cont);
        if (c.what == ENUMERATE)
            VF_WALK_ENUM(enumerate(cont), "(const lvalue)", &a);
        else
            VF_WALK_REV(reverse(cont), "(const lvalue)", &a);
    }
    else
    {
        // temporary: must stay alive for the whole loop (ASan reads every element)
        if (c.cat == CONST_RVALUE)
        {
            if (c.what == ENUMERATE)
                VF_WALK_ENUM(enumerate(make_const<C>(c)), "(const temporary)", nullptr);
            else
                VF_WALK_REV(reverse(make_const<C>(c)), "(const temporary)", nullptr);
        }
        else if (c.what == ENUMERATE)
            VF_WALK_ENUM(enumerate(Make<C>::make(c)), "(temporary)", nullptr);
        else
            VF_WALK_REV(reverse(Make<C>::make(c)), "(temporary)", nullptr);
    }
}

// a second range of the same type and length is walked completely inside every step of the
// loop over the first (and a view of it is alive next to the first view): each walk sees its own range
template <class R1, class R2>
static void nested_walk(R1& a1, R2& a2, const std::vector<long>& e1, const std::vector<long>& e2, const Case& c,
                        Result& r)
{
    using nitro::lang::enumerate;
    using nitro::lang::reverse;
    std::vector<long> got1, got2, want1 = e1, want2;
    std::vector<long> one2 = e2;
    if (c.what == REVERSE)
    {
        std::reverse(want1.begin(), want1.end());
        std::reverse(one2.begin(), one2.end());
    }
    for (std::size_t k = 0; k < e1.size(); ++k)
        want2.insert(want2.end(), one2.begin(), one2.end());
    std::size_t guard = 0;
    if (c.what == REVERSE)
    {
        for (auto& x : reverse(a1))
        {
            got1.push_back(val(x));
            for (auto& y : reverse(a2))
            {
                got2.push_back(val(y));
                if (++guard > 100000)
                    break;
            }
            if (guard > 100000)
                break;
        }
    }
    else
    {
        for (auto x : enumerate(a1))
        {
            if (x.index() != got1.size())
                r.fail("enumerate (outer of two nested loops): visit " + std::to_string(got1.size()) +
                       " carries index " + std::to_string(x.index()));
            got1.push_back(val(x.value()));
            std::size_t j = 0;
            for (auto y : enumerate(a2))
            {
                if (y.index() != j++)
                    r.fail("enumerate (inner of two nested loops): wrong index");
                got2.push_back(val(y.value()));
                if (++guard > 100000)
                    break;
            }
            if (guard > 100000)
                break;
        }
    }
    const char* what = c.what == REVERSE ? "reverse" : "enumerate";
    if (got1 != want1)
        r.fail(std::string(what) + ": the outer of two nested loops over two ranges of the same type and length visits " +
               seq(got1) + ", its range holds " + seq(e1) + " (the inner range holds " + seq(e2) + ")");
    if (got2 != want2)
        r.fail(std::string(what) + ": the inner of two nested loops visits " + seq(got2) + ", expected " + seq(want2));
    // two views alive at the same time, walked one after the other
    if (c.what == REVERSE)
    {
        auto v1 = reverse(a1);
        auto v2 = reverse(a2);
        std::vector<long> g1, g2;
        for (auto& x : v1)
            g1.push_back(val(x));
        for (auto& y : v2)
            g2.push_back(val(y));
        if (g1 != want1 || g2 != one2)
            r.fail("reverse: of two views alive at the same time the first visits " + seq(g1) + " (expected " +
                   seq(want1) + "), the second " + seq(g2) + " (expected " + seq(one2) + ")");
    }
}

template <class E, std::size_t K>
static void run_builtin(const Case& c, Result& r)
{
    using nitro::lang::enumerate;
    using nitro::lang::reverse;
    E arr[K];
    for (std::size_t i = 0; i < K; ++i)
        arr[i] = static_cast<E>(c.vals[i]);
    std::vector<const void*> a;
    for (std::size_t i = 0; i < K; ++i)
        a.push_back(&arr[i]);
    if (c.style == 4)
    {
        E other[K];
        std::vector<long> e1, e2;
        for (std::size_t i = 0; i < K; ++i)
        {
            other[i] = static_cast<E>(c.vals[i] + 1);
            e1.push_back(val(arr[i]));
            e2.push_back(val(other[i]));
        }
        if (c.cat == CONST_LVALUE)
        {
            const E(&c1)[K] = arr;
            const E(&c2)[K] = other;
            nested_walk(c1, c2, e1, e2, c, r);
        }
        else
            nested_walk(arr, other, e1, e2, c, r);
        return;
    }
    if (c.cat == CONST_LVALUE)
    {
        const E(&carr)[K] = arr;
        if (c.what == ENUMERATE)
            VF_WALK_ENUM(enumerate(carr), "(const array)", &a);
        else
            VF_WALK_REV(reverse(carr), "(const array)", &a);
        return;
    }
    if (c.what == ENUMERATE)
    {
        VF_WALK_ENUM(enumerate(arr), "(array)", &a);
        std::vector<long> want;
        for (auto x : enumerate(arr))
        {
            long nv = write_value(val(x.value()), c.kind);
            x.value() = static_cast<E>(nv);
            want.push_back(nv);
        }
        std::vector<long> now;
        for (std::size_t i = 0; i < K; ++i)
            now.push_back(val(arr[i]));
        if (now != want)
            r.fail("enumerate (array): writes are not visible in the array");
    }
    else
    {
        VF_WALK_REV(reverse(arr), "(array)", &a);
        std::vector<long> want;
        for (auto& x : reverse(arr))
        {
            long nv = write_value(val(x), c.kind);
            setv(x, nv);
            want.push_back(nv);
        }
        std::reverse(want.begin(), want.end());
        std::vector<long> now;
        for (std::size_t i = 0; i < K; ++i)
            now.push_back(val(arr[i]));
        if (now != want)
            r.fail("reverse (array): writes are not visible in the array: " + seq(now) + " expected " +
                   seq(want));
    }
}

// a range that computes its elements: the n-th element is n; 2^32 + 5 of them
struct Computed
{
    std::uint64_t n;
    struct iterator
    {
        std::uint64_t i;
        std::uint64_t operator*() const
        {
            return i;
        }
        iterator& operator++()
        {
            ++i;
            return *this;
        }
        bool operator!=(const iterator& o) const
        {
            return i != o.i;
        }
    };
    iterator begin() const
    {
        return iterator{ 0 };
    }
    iterator end() const
    {
        return iterator{ n };
    }
};

static void run_huge(Result& r)
{
    Computed range{ (std::uint64_t(1) << 32) + 5 };
    std::uint64_t visits = 0, wrong = 0, first_wrong = 0, first_index = 0;
    for (auto x : nitro::lang::enumerate(range))
    {
        if (x.index() != x.value())
        {
            if (!wrong)
            {
                first_wrong = x.value();
                first_index = x.index();
            }
            ++wrong;
        }
        ++visits;
    }
    if (visits != range.n)
        r.fail("enumerate over a range of " + std::to_string(range.n) + " elements made " + std::to_string(visits) +
               " visits");
    if (wrong)
        r.fail("enumerate over a range of " + std::to_string(range.n) + " elements: " + std::to_string(wrong) +
               " elements came with a wrong index, first: element " + std::to_string(first_wrong) +
               " was paired with index " + std::to_string(first_index));
}

static void run_init_list(const Case& c, Result& r)
{
    using nitro::lang::enumerate;
    using nitro::lang::reverse;
    const auto& v = c.vals;
    // braced lists need a static length; the zero-length list needs an explicit type
    if (c.what == ENUMERATE)
    {
        switch (v.size())
        {
        case 0:
            VF_WALK_ENUM(enumerate(std::initializer_list<int>{}), "(initializer list)", nullptr);
            break;
        case 1:
            VF_WALK_ENUM(enumerate({ v[0] }), "(initializer list)", nullptr);
            break;
        case 2:
            VF_WALK_ENUM(enumerate({ v[0], v[1] }), "(initializer list)", nullptr);
            break;
        case 3:
            VF_WALK_ENUM(enumerate({ v[0], v[1], v[2] }), "(initializer list)", nullptr);
            break;
        default:
            VF_WALK_ENUM(enumerate({ v[0], v[1], v[2], v[3] }), "(initializer list)", nullptr);
        }
    }
    else
    {
        switch (v.size())
        {
        case 0:
            VF_WALK_REV(reverse(std::initializer_list<int>{}), "(initializer list)", nullptr);
            break;
        case 1:
            VF_WALK_REV(reverse({ v[0] }), "(initializer list)", nullptr);
            break;
        case 2:
            VF_WALK_REV(reverse({ v[0], v[1] }), "(initializer list)", nullptr);
            break;
        case 3:
            VF_WALK_REV(reverse({ v[0], v[1], v[2] }), "(initializer list)", nullptr);
            break;
        default:
            VF_WALK_REV(reverse({ v[0], v[1], v[2], v[3] }), "(initializer list)", nullptr);
        }
    }
}

// std::vector<bool>: the "elements" are proxies handed out by value; the proxy is the alias
static void run_vector_bool(const Case& c, Result& r)
{
    using nitro::lang::enumerate;
    std::vector<bool> want = Make<std::vector<bool>>::make(c);
    auto read = [&](auto&& range, const char* how) {
        std::size_t i = 0;
        for (auto e : range)
        {
            if (e.index() != i || i >= want.size() || static_cast<bool>(e.value()) != want[i])
                r.fail(std::string("enumerate ") + how + " over vector<bool>: visit " + std::to_string(i) +
                       " carries index " + std::to_string(e.index()) + " / a wrong value");
            ++i;
        }
        if (i != want.size())
            r.fail(std::string("enumerate ") + how + " over vector<bool> makes " + std::to_string(i) + " visits, " +
                   std::to_string(want.size()) + " elements");
    };
    if (c.cat == LVALUE)
    {
        std::vector<bool> vb = want;
        read(enumerate(vb), "(lvalue)");
        // write-through: flip every element through what value() hands out
        for (auto e : enumerate(vb))
        {
            auto&& bit = e.value();
            bit = !want[e.index()];
        }
        for (std::size_t i = 0; i < want.size(); ++i)
            if (vb[i] != !want[i])
            {
                r.fail("enumerate (lvalue) over vector<bool>: a write through value() at index " + std::to_string(i) +
                       " is not visible in the container");
                break;
            }
    }
    else if (c.cat == CONST_LVALUE)
    {
        const std::vector<bool> vb = want;
        read(enumerate(vb), "(const lvalue)");
    }
    else
        read(enumerate(Make<std::vector<bool>>::make(c)), "(temporary)");
}

// a braced list of std::string objects built at run time (heap allocated): the list and its elements
// live until the loop ends
static void run_init_list_string(const Case& c, Result& r)
{
    using nitro::lang::enumerate;
    using nitro::lang::reverse;
    auto mk = [&](std::size_t i) { return std::to_string(c.vals[i]) + std::string(40, '.'); };
    if (c.what == ENUMERATE)
    {
        switch (c.vals.size())
        {
        case 1:
            VF_WALK_ENUM(enumerate({ mk(0) }), "(initializer list of strings)", nullptr);
            break;
        case 2:
            VF_WALK_ENUM(enumerate({ mk(0), mk(1) }), "(initializer list of strings)", nullptr);
            break;
        default:
            VF_WALK_ENUM(enumerate({ mk(0), mk(1), mk(2) }), "(initializer list of strings)", nullptr);
        }
    }
    else
    {
        switch (c.vals.size())
        {
        case 1:
            VF_WALK_REV(reverse({ mk(0) }), "(initializer list of strings)", nullptr);
            break;
        case 2:
            VF_WALK_REV(reverse({ mk(0), mk(1) }), "(initializer list of strings)", nullptr);
            break;
        default:
            VF_WALK_REV(reverse({ mk(0), mk(1), mk(2) }), "(initializer list of strings)", nullptr);
        }
    }
}

std::string check(const Case& c, vf::Ctx& ctx)
{
    Result r;
    if (c.kind != HUGE_RANGE && !static_len_ok(c.kind, c.vals.size()))
        return "";
    ctx.tag(std::string("kind:") + kind_name(c.kind));
    ctx.tag(c.cat == LVALUE ? "cat:lvalue" : c.cat == CONST_LVALUE ? "cat:const" :
            c.cat == RVALUE ? "cat:temporary" : "cat:const-temporary");
    ctx.tag(c.style == 1 ? "style:post-increment-loop" : c.style == 2 ? "style:const-loop-variable" :
            c.style == 3 ? "style:range-object-moved-first" : c.style == 4 ? "style:second-range-walked-inside" : "style:range-for");
    ctx.tag(c.what == ENUMERATE ? "what:enumerate" : "what:reverse");
    ctx.tag("len:" + std::to_string(c.vals.size()));
    // non-trivial: anything the suite does not have - length != 3, node based or
    // temporary ranges, write-through (every lvalue case writes)
    if (c.vals.size() != 3 || c.kind == LIST || c.kind == MAP || c.kind == DEQUE || c.cat >= RVALUE || c.style >= 1 ||
        c.cat == LVALUE)
        ctx.mark_nontrivial();
    switch (c.kind)
    {
    case VECTOR:
        run_container<std::vector<int>>(c, r);
        break;
    case DEQUE:
        run_container<std::deque<int>>(c, r);
        break;
    case LIST:
        run_container<std::list<int>>(c, r);
        break;
    case MAP:
        run_container<std::map<int, int>>(c, r);
        break;
    case STRING:
        run_container<std::string>(c, r);
        break;
    case VECTOR_STRING:
        run_container<std::vector<std::string>>(c, r);
        break;
    case FIXED_VECTOR:
        run_container<nitro::lang::fixed_vector<int>>(c, r);
        break;
    case STD_ARRAY:
        switch (c.vals.size())
        {
        case 0:
            run_container<std::array<int, 0>>(c, r);
            break;
        case 1:
            run_container<std::array<int, 1>>(c, r);
            break;
        case 2:
            run_container<std::array<int, 2>>(c, r);
            break;
        case 3:
            run_container<std::array<int, 3>>(c, r);
            break;
        case 100:
            run_container<std::array<int, 100>>(c, r);
            break;
        default:
            run_container<std::array<int, 7>>(c, r);
        }
        break;
    case VECTOR_BOOL:
        run_vector_bool(c, r);
        break;
    case INIT_LIST_STRING:
        if (c.vals.size() >= 1 && c.vals.size() <= 3)
            run_init_list_string(c, r);
        break;
    case BUILTIN_ARRAY:
        switch (c.vals.size())
        {
        case 1:
            run_builtin<int, 1>(c, r);
            break;
        case 2:
            run_builtin<int, 2>(c, r);
            break;
        case 3:
            run_builtin<int, 3>(c, r);
            break;
        default:
            run_builtin<int, 7>(c, r);
        }
        break;
    case CHAR_ARRAY:
        if (!c.vals.empty() && c.vals.back() == 0)
            ctx.tag("char-array:ends-in-zero-byte");
        switch (c.vals.size())
        {
        case 1:
            run_builtin<char, 1>(c, r);
            break;
        case 2:
            run_builtin<char, 2>(c, r);
            break;
        case 3:
            run_builtin<char, 3>(c, r);
            break;
        default:
            run_builtin<char, 7>(c, r);
        }
        break;
    case HUGE_RANGE:
        run_huge(r);
        break;
    case INIT_LIST:
        run_init_list(c, r);
        break;
    default:
        break;
    }
    return r.err;
}
} // namespace h

#define VF_WATCHDOG_SECONDS 300
#include "common/vmain.hpp"
