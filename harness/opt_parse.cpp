// Options parsing family: C01, C02, C03, C04, C11, C12, C14. One binary, the
// property focus is selected by --mode (c01, c02, c03, c03ex, c04, c11, c11ex,
// c12, c14). Every mode runs the real parser against RefParser (opt_model.hpp)
// and adds its property-specific oracle (round trip, source table, index
// probes, fresh-parser metamorphic relation).
#include "opt_model.hpp"

namespace h
{
using om::Case;
using om::Entry;
using om::MULTI;
using om::OPTION;
using om::Step;
using om::TOGGLE;

const char* property_ids()
{
    return "C01,C02,C03,C04,C11,C12,C14";
}

std::string describe(const Case& c)
{
    if (c.prop == "c11vocab" && c.probe.size() >= 3)
        return "environment vocabulary: block " + std::to_string(c.probe[0]) + " of all words of up to " +
               std::to_string(c.probe[1]) + " characters over " + (c.probe[2] ? "64 characters" : "printable ASCII");
    return om::describe(c);
}

// ---------------------------------------------------------------- generators

static const std::vector<std::string>& name_pool()
{
    static const std::vector<std::string> p = { "a",   "ab", "abc", "verbose", "x-y", "out", "o",
                                                "v",   "n",  "in.put", "q_1", "A",   "no",  "x y",
                                                "\xc3\xa4nderung", "dry-run", "dry_run" };
    return p;
}
static const std::string letter_pool = "abovxyzn1_.A:\xe4\xf6";

static const std::vector<std::string>& value_pool()
{
    static const std::vector<std::string> p = { "v",     "1",     "",       "x=y",  "a b",     "-5",
                                                "--",    "-",     "--out",  "\xc3\xa4\xc3\xb6",
                                                "a\nb",  "42",    "-x=1",   "12.5", " lead",   "=",
                                                "t\tb",  "--a=b", "a;b",    "---",  "\r",      "007",
                                                "-o",    "=x",    "value with  two blanks",
                                                "0",     "-1",    "2147483647", "-2147483648",
                                                "123456789012", "3.25", "-0.125", "1000000",
                                                "65535", "0.001", "010", "0089", "-0012", "0100",
                                                "{}",    "%s",    "a{}b",   "{0}",
                                                "\"quoted text\"", "\"\"", "\"a;b\"", "'single'",
                                                "18446744073709551615", "9223372036854775808",
                                                "9223372036854775807", "-9223372036854775808", "4294967296",
                                                ";",     "a;",    ";;",     ";b",   "prog", "main",
                                                "\xe2\x80\x93" "20", "\xe2\x80\x94", "2.5", "10%", "12abc",
                                                std::string(63, '\x85'), std::string(64, '\x9f'),
                                                std::string(65, '\x80'), std::string(70, '\xbf'),
                                                "inf", "nan", "1", "11" };
    return p;
}

struct DeclOpts
{
    int max_entries = 6;
    int p_short = 70;
    bool env = false;       // bind env vars
    int p_optional = 80;    // percent optional among value-taking entries
    int p_default = 30;
    bool toggles_only = false;
    int min_entries = 0;
    bool dash_letter = false; // the dash itself may be a short name (it then only works inside bundles: -a-)
};

static std::string gen_value(vf::Src& src)
{
    // now and then a long value (lengths around powers of two)
    if (src.range(0, 199) == 199)
    {
        static const int lens[] = { 255, 256, 257, 1023, 1024, 1025, 4096, 5000 };
        return std::string(static_cast<std::size_t>(lens[src.index(8)]), static_cast<char>('a' + src.irange(0, 3)));
    }
    // a text the library's own source mentions (not one that looks like an option)
    if (!vf::source_literals().empty() && src.range(0, 39) == 39)
    {
        std::string w = src.pick(vf::source_literals());
        w.erase(std::remove(w.begin(), w.end(), '\0'), w.end());
        if (!w.empty() && w[0] != '-')
            return w;
    }
    switch (src.weighted({ 70, 20, 10 }))
    {
    case 0:
        return src.pick(value_pool());
    case 1:
        return src.bytes_nonul(0, 6);
    default:
        return src.pick(value_pool()) + src.pick(value_pool());
    }
}

static void gen_decl(vf::Src& src, Case& c, const DeclOpts& o)
{
    int n = src.irange(o.min_entries, o.max_entries);
    std::vector<std::string> names = name_pool();
    std::string letters = letter_pool;
    if (o.dash_letter && src.coin(15))
        letters = "-" + letters.substr(0, 3);
    for (int i = 0; i < n; ++i)
    {
        Entry e;
        e.kind = o.toggles_only ? TOGGLE : static_cast<int>(src.weighted({ 35, 25, 40 }));
        if (o.toggles_only && src.coin(20))
            e.kind = src.coin(50) ? OPTION : MULTI;
        std::size_t ni = src.index(names.size());
        e.name = names[ni];
        names.erase(names.begin() + static_cast<long>(ni));
        if (src.coin(o.p_short) && !letters.empty())
        {
            std::size_t li = src.index(letters.size());
            e.short_ = std::string(1, letters[li]);
            letters.erase(li, 1);
        }
        if (e.kind == TOGGLE)
        {
            e.reversible = src.coin(45);
            if (src.coin(o.p_default))
            {
                e.has_default = true;
                e.tdef_bool = src.coin(50);
                e.tdef = e.tdef_bool ? src.irange(0, 1) : src.irange(0, 5);
            }
        }
        else
        {
            e.optional = src.coin(o.p_optional);
            if (src.coin(o.p_default))
            {
                e.has_default = true;
                if (e.kind == OPTION)
                    e.def = gen_value(src);
                else
                {
                    int k = src.irange(0, 3);
                    for (int j = 0; j < k; ++j)
                        e.mdef.push_back(gen_value(src));
                }
            }
        }
        e.env_bound = o.env && src.coin(60);
        // now and then two entries read the same variable
        if (e.env_bound && i > 0 && src.coin(12))
        {
            int a = src.irange(0, i - 1);
            if (c.e[static_cast<std::size_t>(a)].env_bound && c.e[static_cast<std::size_t>(a)].env_alias < 0)
                e.env_alias = a;
        }
        e.group = src.coin(30) ? src.irange(1, 2) : 0;
        c.e.push_back(e);
    }
    // a value-taking option may be called "no-<X>" where <X> is a declared toggle: the declared
    // name wins over the reversal spelling of the toggle
    if (src.coin(6))
    {
        int tog = -1, opt = -1;
        for (std::size_t i = 0; i < c.e.size(); ++i)
        {
            if (c.e[i].kind == TOGGLE && tog < 0)
                tog = static_cast<int>(i);
            if (c.e[i].kind != TOGGLE && opt < 0)
                opt = static_cast<int>(i);
        }
        if (tog >= 0 && opt >= 0)
        {
            std::string n = "no-" + c.e[static_cast<std::size_t>(tog)].name;
            bool used = false;
            for (auto& e : c.e)
                used |= e.name == n;
            if (!used)
                c.e[static_cast<std::size_t>(opt)].name = n;
        }
    }
}

static void gen_limit(vf::Src& src, Case& c)
{
    static const long long lims[] = { 0, 1, 2, 3, 5, -1 };
    c.limit = lims[src.weighted({ 25, 15, 15, 10, 5, 30 })];
    // accepted counts far beyond any command line, around the 32-bit boundaries
    if (src.coin(4))
    {
        static const long long big[] = { 1ll << 31, (1ll << 32) - 1, 1ll << 32, (1ll << 32) + 1, (1ll << 32) + 2,
                                         3ll << 32, 0x7fffffffffffffffll };
        c.limit = big[src.index(7)];
    }
    c.greedy = src.coin(30);
    // the setters are called more than once now and then: the last call decides
    if (src.coin(12))
        c.reconfig = src.irange(1, 3);
}

static Step blank_step(const Case& c)
{
    Step s;
    s.env_state.assign(c.e.size(), 0);
    s.env_word.assign(c.e.size(), "");
    return s;
}

static std::string gen_env_word(vf::Src& src, int kind)
{
    if (kind == TOGGLE)
    {
        switch (src.weighted({ 35, 35, 30 }))
        {
        case 0:
        {
            std::vector<std::string> w(om::truthy_words().begin(), om::truthy_words().end());
            return src.pick(w);
        }
        case 1:
        {
            std::vector<std::string> w(om::falsy_words().begin(), om::falsy_words().end());
            return src.pick(w);
        }
        default:
        {
            static const std::vector<std::string> near = { "tRUE", "oN",   "yes ", " 1",  "2",
                                                           "truee", "-1",  "T",    "F",   "nO",
                                                           "enable", "00", "01",   "yEs", "WITHout",
                                                           "on\n", "--yes", "1=1", "{}",  "a{}", "{}{}",
                                                           "%s",   "{0}",   "$1" };
            if (!vf::source_literals().empty() && src.coin(12))
            {
                // a word the library's own source text mentions
                std::string w = src.pick(vf::source_literals());
                w.erase(std::remove(w.begin(), w.end(), '\0'), w.end());
                if (!w.empty())
                    return w;
            }
            return src.coin(70) ? src.pick(near) : src.bytes_nonul(1, 5);
        }
        }
    }
    if (kind == MULTI)
    {
        int k = src.irange(1, 4);
        std::string w;
        for (int i = 0; i < k; ++i)
        {
            std::string piece = gen_value(src);
            piece.erase(std::remove(piece.begin(), piece.end(), ';'), piece.end());
            if (i == k - 1 && piece.empty())
                piece = "z";
            if (i)
                w += ";";
            w += piece;
        }
        return w;
    }
    std::string w = gen_value(src);
    return w;
}

static void gen_env(vf::Src& src, const Case& c, Step& s, int p_set)
{
    if (src.coin(10))
        s.neighbours = 1;
    for (std::size_t i = 0; i < c.e.size(); ++i)
    {
        if (!c.e[i].env_bound)
            continue;
        if (!src.coin(p_set))
            continue;
        if (src.coin(15))
            s.env_state[i] = 1;
        else
        {
            s.env_state[i] = 2;
            s.env_word[i] = gen_env_word(src, c.e[i].kind);
            // now and then the variable holds exactly the declared default
            if (c.e[i].has_default && src.coin(15))
            {
                if (c.e[i].kind == OPTION && !c.e[i].def.empty())
                    s.env_word[i] = c.e[i].def;
                else if (c.e[i].kind == MULTI && !c.e[i].mdef.empty())
                {
                    std::string w;
                    bool ok = true;
                    for (auto& d : c.e[i].mdef)
                    {
                        ok &= !d.empty() && d.find(';') == std::string::npos && d.find('\0') == std::string::npos;
                        w += (w.empty() ? "" : ";") + d;
                    }
                    if (ok)
                        s.env_word[i] = w;
                }
            }
        }
    }
}

// a value for a declared value-taking entry: now and then exactly its declared default, spelled out
static std::string value_for(vf::Src& src, const Entry& e)
{
    if (e.kind == OPTION && e.has_default && src.coin(25))
        return e.def;
    return gen_value(src);
}

// a token that stands in a chosen relation to the declaration
static void gen_related_tokens(vf::Src& src, const Case& c, std::vector<std::string>& argv,
                               bool allow_no)
{
    auto undeclared_name = [&]() -> std::string {
        static const std::vector<std::string> extra = { "zz", "abx", "verbos", "a-", "aa", "O" };
        for (int tries = 0; tries < 8; ++tries)
        {
            std::string n = src.coin(50) ? src.pick(extra) : src.pick(name_pool());
            bool used = false;
            for (auto& e : c.e)
                used |= e.name == n;
            if (!used)
                return n;
        }
        return "zz-undeclared";
    };
    auto undeclared_letter = [&]() -> char {
        static const std::string all = "abovxyzn1_.A:QZ7, ";
        // now and then the high-bit twin of a declared letter (letter + 0x80)
        if (src.coin(10))
            for (auto& e : c.e)
                if (!e.short_.empty() && static_cast<unsigned char>(e.short_[0]) < 0x80)
                {
                    char twin = static_cast<char>(static_cast<unsigned char>(e.short_[0]) | 0x80);
                    bool used = false;
                    for (auto& f : c.e)
                        used |= f.short_ == std::string(1, twin);
                    if (!used)
                        return twin;
                }
        for (int tries = 0; tries < 8; ++tries)
        {
            char ch = all[src.index(all.size())];
            bool used = false;
            for (auto& e : c.e)
                used |= e.short_ == std::string(1, ch);
            if (!used)
                return ch;
        }
        return '#';
    };
    std::vector<const Entry*> with_letter, toggles_with_letter;
    for (auto& e : c.e)
        if (!e.short_.empty())
        {
            with_letter.push_back(&e);
            if (e.kind == TOGGLE)
                toggles_with_letter.push_back(&e);
        }

    switch (src.weighted({ 18, 7, 14, 6, 25, 6, 16, 8 }))
    {
    case 0: // declared long name
        if (!c.e.empty())
        {
            const Entry& e = c.e[src.index(c.e.size())];
            std::string t = "--" + e.name;
            if (e.kind == TOGGLE)
            {
                if (src.coin(8))
                    t += "=" + gen_value(src);
                argv.push_back(t);
            }
            else
            {
                switch (src.weighted({ 45, 45, 10 }))
                {
                case 0:
                    argv.push_back(t + "=" + value_for(src, e));
                    break;
                case 1:
                    argv.push_back(t);
                    argv.push_back(value_for(src, e)); // may be option-like: value missing
                    break;
                default:
                    argv.push_back(t); // value missing unless a value token follows by chance
                }
            }
            break;
        }
        /* fallthrough */
    case 1: // undeclared long name
    {
        std::string t = "--" + undeclared_name();
        if (src.coin(30))
            t += "=" + gen_value(src);
        argv.push_back(t);
        break;
    }
    case 2: // single declared letter
        if (!with_letter.empty())
        {
            const Entry& e = *with_letter[src.index(with_letter.size())];
            std::string t = "-" + e.short_;
            if (e.kind == TOGGLE)
            {
                if (src.coin(8))
                    t += "=" + gen_value(src);
                argv.push_back(t);
            }
            else if (src.coin(50))
                argv.push_back(t + "=" + value_for(src, e));
            else
            {
                argv.push_back(t);
                if (src.coin(85))
                    argv.push_back(value_for(src, e));
            }
            break;
        }
        /* fallthrough */
    case 3: // single undeclared letter
    {
        std::string t = std::string("-") + undeclared_letter();
        if (src.coin(25))
            t += "=" + gen_value(src);
        argv.push_back(t);
        break;
    }
    case 4: // bundle of 2-5 letters in every mixture
    {
        int k = src.irange(2, 5);
        std::string t = "-";
        // choose the flavour first so that pure-toggle bundles stay frequent
        int flavour = static_cast<int>(src.weighted({ 40, 25, 20, 15 }));
        for (int i = 0; i < k; ++i)
        {
            int pickk = 0;
            if (flavour == 1)
                pickk = static_cast<int>(src.weighted({ 60, 40, 0 }));
            else if (flavour == 2)
                pickk = static_cast<int>(src.weighted({ 60, 0, 40 }));
            else if (flavour == 3)
                pickk = static_cast<int>(src.weighted({ 34, 33, 33 }));
            if (pickk == 0 && !toggles_with_letter.empty())
                t += toggles_with_letter[src.index(toggles_with_letter.size())]->short_;
            else if (pickk == 2 && !with_letter.empty())
                t += with_letter[src.index(with_letter.size())]->short_;
            else
                t += undeclared_letter();
        }
        // a dash inside a bundle is just another character that matches nothing declared
        if (src.coin(8) && t.size() >= 2)
            t.insert(2 + src.index(t.size() - 1), "-"); // behind the first letter: still a short token
        if (src.coin(6))
            t += "=" + gen_value(src);
        argv.push_back(t);
        if (src.coin(25))
            argv.push_back(gen_value(src));
        break;
    }
    case 5: // --no-<name>
        if (allow_no && !c.e.empty())
        {
            const Entry& e = c.e[src.index(c.e.size())];
            argv.push_back("--no-" + e.name + (src.coin(15) ? "=" + gen_value(src) : std::string()));
            break;
        }
        /* fallthrough */
    case 6: // value token
    {
        std::string v = gen_value(src);
        if (!om::is_value_token(v))
            v = "p" + v;
        argv.push_back(v);
        break;
    }
    default:
        argv.push_back("--");
    }
}

// C02: assignment first, then a rendering of it
static void gen_c02(vf::Src& src, Case& c)
{
    DeclOpts o;
    o.p_default = 15;
    o.p_optional = 100;
    gen_decl(src, c, o);
    Step st = blank_step(c);

    struct Item
    {
        std::vector<std::string> tokens;
    };
    std::vector<std::vector<Item>> streams; // order inside a stream is kept

    auto render_value = [&](const Entry& e, const std::string& v) -> Item {
        Item it;
        bool can_short = !e.short_.empty();
        bool sep_ok = om::is_value_token(v);
        // forms: 0 --name v, 1 --name=v, 2 -s v, 3 -s=v
        std::vector<int> forms;
        forms.push_back(1);
        if (sep_ok)
            forms.push_back(0);
        if (can_short)
        {
            forms.push_back(3);
            if (sep_ok)
                forms.push_back(2);
        }
        int f = forms[src.index(forms.size())];
        switch (f)
        {
        case 0:
            it.tokens = { "--" + e.name, v };
            break;
        case 1:
            it.tokens = { "--" + e.name + "=" + v };
            break;
        case 2:
            it.tokens = { "-" + e.short_, v };
            break;
        default:
            it.tokens = { "-" + e.short_ + "=" + v };
        }
        return it;
    };

    std::string letter_occ; // pending letter occurrences of toggles with a short name
    for (auto& e : c.e)
    {
        if (e.kind == OPTION)
        {
            if (src.coin(65))
            {
                std::string v = gen_value(src);
                if (e.has_default && src.coin(30))
                    v = e.def; // spelled explicitly although it equals the default
                e.want = { v };
                streams.push_back({ render_value(e, v) });
            }
            else if (e.has_default)
                e.want = { e.def };
        }
        else if (e.kind == MULTI)
        {
            int k = src.coin(65) ? (src.coin(95) ? src.irange(1, 4) : src.irange(16, 40)) : 0;
            std::vector<Item> s;
            for (int i = 0; i < k; ++i)
            {
                std::string v = gen_value(src);
                e.want.push_back(v);
                s.push_back(render_value(e, v));
            }
            if (k)
                streams.push_back(s);
            else if (e.has_default)
                e.want = e.mdef;
        }
        else
        {
            int k = src.coin(70) ? (src.coin(95) ? src.irange(1, 5)
                                                 : std::vector<int>{ 100, 255, 256, 257, 300, 512, 600 }[src.index(7)])
                                 : 0;
            e.want_count = k ? k : (e.has_default ? e.tdef : 0);
            // (not when a declared option is called "no-<this toggle>": that spelling belongs to it)
            bool no_name_taken = false;
            for (auto& other : c.e)
                no_name_taken |= other.name == "no-" + e.name;
            if (k == 0 && e.reversible && !no_name_taken && src.coin(40))
            {
                e.want_count = 0;
                streams.push_back({ Item{ { "--no-" + e.name } } });
            }
            for (int i = 0; i < k; ++i)
            {
                if (!e.short_.empty() && src.coin(65))
                    letter_occ += e.short_;
                else
                    streams.push_back({ Item{ { "--" + e.name } } });
            }
        }
    }
    // partition the letter occurrences into short tokens (single, repeated, bundled)
    {
        // shuffle by repeated random extraction
        std::string pool = letter_occ;
        while (!pool.empty())
        {
            // (hundreds of letters: now and then all of them in one token)
            int most = pool.size() > 50 ? (src.coin(35) ? static_cast<int>(pool.size()) : 80) : 4;
            int k = src.coin(20) && pool.size() > 50 ? most
                                                     : src.irange(1, std::min<int>(most, static_cast<int>(pool.size())));
            k = std::min<int>(k, static_cast<int>(pool.size()));
            std::string t = "-";
            for (int i = 0; i < k; ++i)
            {
                std::size_t j = src.index(pool.size());
                t.push_back(pool[j]);
                pool.erase(j, 1);
            }
            streams.push_back({ Item{ { t } } });
        }
    }
    // positionals
    int np = src.coin(60) ? (src.coin(95) ? src.irange(1, 5) : src.irange(17, 70)) : 0;
    for (int i = 0; i < np; ++i)
        c.want_pos.push_back(gen_value(src));
    c.greedy = np > 0 && src.coin(25);
    if (np == 0)
        c.limit = src.coin(50) ? 0 : -1;
    else
        c.limit = src.coin(50) ? -1 : np + src.irange(0, 2);
    // how many positionals are given inline (all must be value tokens)
    int inline_n = 0;
    while (inline_n < np && om::is_value_token(c.want_pos[static_cast<std::size_t>(inline_n)]))
        ++inline_n;
    bool trailing_only = c.greedy;
    if (!trailing_only)
        inline_n = inline_n ? src.irange(0, inline_n) : 0;
    bool need_dd = inline_n < np || src.coin(20);
    if (!trailing_only && inline_n)
    {
        std::vector<Item> s;
        for (int i = 0; i < inline_n; ++i)
            s.push_back(Item{ { c.want_pos[static_cast<std::size_t>(i)] } });
        streams.push_back(s);
    }
    // random merge of the streams
    std::vector<std::size_t> head(streams.size(), 0);
    std::size_t remaining = 0;
    for (auto& s : streams)
        remaining += s.size();
    while (remaining)
    {
        std::vector<std::size_t> live;
        for (std::size_t i = 0; i < streams.size(); ++i)
            if (head[i] < streams[i].size())
                live.push_back(i);
        std::size_t k = live[src.index(live.size())];
        for (auto& t : streams[k][head[k]].tokens)
            st.argv.push_back(t);
        ++head[k];
        --remaining;
    }
    if (trailing_only)
    {
        // greedy: positionals trail; the first one (a value token) switches the mode,
        // otherwise `--` does
        if (inline_n == 0)
            st.argv.push_back("--");
        else if (src.coin(20))
            st.argv.push_back("--");
        for (auto& p : c.want_pos)
            st.argv.push_back(p);
    }
    else
    {
        if (need_dd)
            st.argv.push_back("--");
        for (int i = inline_n; i < np; ++i)
            st.argv.push_back(c.want_pos[static_cast<std::size_t>(i)]);
    }
    c.steps.push_back(st);
}

static bool flag(vf::Src& src, bool exhaustive, int percent)
{
    // in enumerated modes a flag is a two-valued choice, not a 100-valued coin
    return exhaustive ? src.irange(0, 1) == 1 : src.coin(percent);
}

static void gen_c03(vf::Src& src, Case& c, bool exhaustive)
{
    // several entries, each with its own variable; per entry the full matrix
    int n = exhaustive ? 1 : src.irange(1, 4);
    std::vector<std::string> names = name_pool();
    Step st = blank_step(c);
    for (int i = 0; i < n; ++i)
    {
        Entry e;
        e.kind = src.irange(0, 2);
        e.name = names[static_cast<std::size_t>(i)];
        if (!exhaustive && src.coin(50))
            e.short_ = std::string(1, letter_pool[static_cast<std::size_t>(i)]);
        int envs = src.irange(0, 3); // unbound, bound+unset, set empty, set word
        e.env_bound = envs != 0;
        e.has_default = flag(src, exhaustive, 50);
        e.optional = flag(src, exhaustive, 50);
        if (e.kind == TOGGLE)
        {
            e.reversible = flag(src, exhaustive, 40);
            e.tdef = exhaustive ? 3 : src.irange(0, 4);
        }
        else if (e.kind == OPTION)
            e.def = exhaustive ? "dflt" : gen_value(src);
        else
            e.mdef = exhaustive ? std::vector<std::string>{ "d1", "d2" }
                                : std::vector<std::string>{ gen_value(src), gen_value(src) };
        bool on_cmd = flag(src, exhaustive, 50);
        if (!exhaustive && e.env_bound && i > 0 && src.coin(15))
        {
            int a = src.irange(0, i - 1);
            if (c.e[static_cast<std::size_t>(a)].env_bound && c.e[static_cast<std::size_t>(a)].env_alias < 0)
                e.env_alias = a;
        }
        c.e.push_back(e);
        st.env_state.push_back(envs >= 2 ? envs - 1 : 0);
        std::string w;
        if (envs == 3)
        {
            if (exhaustive)
                w = e.kind == TOGGLE ? (flag(src, true, 50) ? "yes" : "OFF") : (e.kind == MULTI ? "e1;-e2;--x=y" : "--env=word");
            else
                w = gen_env_word(src, e.kind);
            // now and then the variable holds exactly what the declaration gives as default
            if (!exhaustive && e.has_default && src.coin(15))
            {
                if (e.kind == OPTION && !e.def.empty())
                    w = e.def;
                else if (e.kind == MULTI && !e.mdef.empty())
                {
                    std::string j;
                    bool ok = true;
                    for (auto& d : e.mdef)
                    {
                        ok &= !d.empty() && d.find(';') == std::string::npos;
                        j += (j.empty() ? "" : ";") + d;
                    }
                    if (ok)
                        w = j;
                }
            }
            if (w.empty())
                w = "w";
        }
        st.env_word.push_back(w);
        if (on_cmd)
        {
            // a reversible toggle may be given in its negative spelling: still "given on the
            // command line", the environment must not be consulted
            if (e.kind == TOGGLE && e.reversible && flag(src, exhaustive, 45))
                st.argv.push_back("--no-" + e.name);
            else if (e.kind == TOGGLE)
                st.argv.push_back("--" + e.name);
            else
            {
                st.argv.push_back("--" + e.name + "=" + (exhaustive ? "cmd" : gen_value(src)));
                if (e.kind == MULTI && !exhaustive && src.coin(30))
                    st.argv.push_back("--" + e.name + "=" + gen_value(src));
            }
        }
    }
    c.limit = 0;
    c.steps.push_back(st);
}

static std::string soup_token(vf::Src& src, const Case& c)
{
    static const std::vector<std::string> frag = { "-",  "--", "---", "=",  "==", "a", "o",  "v",
                                                   "no-", "x",  " ",   "\n", "\xff", "1", "ab", ";" };
    switch (src.weighted({ 30, 25, 20, 10, 10, 5 }))
    {
    case 0:
    {
        int k = src.irange(0, 5);
        std::string t;
        for (int i = 0; i < k; ++i)
            t += src.pick(frag);
        return t;
    }
    case 1:
    {
        // dash prefix + declared fragment + tail
        std::string t = src.pick(std::vector<std::string>{ "-", "--", "---", "--no-", "-=", "--=" });
        if (!c.e.empty() && src.coin(70))
        {
            const Entry& e = c.e[src.index(c.e.size())];
            t += src.coin(50) || e.short_.empty() ? e.name : e.short_;
        }
        int k = src.irange(0, 3);
        for (int i = 0; i < k; ++i)
            t += src.pick(frag);
        return t;
    }
    case 2:
        return src.bytes_nonul(0, 8);
    case 3:
    {
        // long bundle of declared toggle letters (and sometimes a foreign one)
        std::string letters;
        for (auto& e : c.e)
            if (e.kind == TOGGLE && !e.short_.empty())
                letters += e.short_;
        if (letters.empty())
            letters = "q";
        int k = src.coin(30) ? src.irange(100, 3000) : src.irange(2, 40);
        std::string t = "-";
        for (int i = 0; i < k; ++i)
            t.push_back(letters[src.index(letters.size())]);
        if (src.coin(20))
            t.push_back('Q');
        return t;
    }
    case 4:
        return gen_value(src);
    default:
    {
        // very long tokens: 1e3 .. 1.3e5 bytes (Linux allows 131071 per argument)
        static const int lens[] = { 1000, 5000, 20000, 60000, 131000 };
        int len = lens[src.index(5)];
        std::string t = src.pick(std::vector<std::string>{ "--out=", "-o=", "--", "-", "x", "--zz" });
        t += std::string(static_cast<std::size_t>(len), static_cast<char>('a' + src.irange(0, 3)));
        return t;
    }
    }
}

static void gen_c04(vf::Src& src, Case& c)
{
    DeclOpts o;
    o.env = true;
    o.p_optional = 70;
    gen_decl(src, c, o);
    gen_limit(src, c);
    Step st = blank_step(c);
    gen_env(src, c, st, 40);
    // arbitrary env bytes too
    for (std::size_t i = 0; i < c.e.size(); ++i)
        if (st.env_state[i] == 2 && src.coin(25))
        {
            st.env_word[i] = src.bytes_nonul(1, 8);
        }
    int k = src.irange(0, 8);
    for (int i = 0; i < k; ++i)
    {
        if (src.coin(55))
            st.argv.push_back(soup_token(src, c));
        else
            gen_related_tokens(src, c, st.argv, true);
    }
    c.via_argv = src.coin(70);
    // a NUL byte can only occur in a token handed over as a user_input object
    if (!c.via_argv && !c.e.empty() && src.coin(10))
    {
        const Entry& e = c.e[src.index(c.e.size())];
        std::string t = "--" + e.name;
        t.push_back('\0');
        t += src.coin(50) ? "x" : "";
        st.argv.insert(st.argv.begin() + static_cast<long>(src.index(st.argv.size() + 1)), t);
        if (e.kind != TOGGLE && src.coin(50))
            st.argv.push_back("3");
    }
    // the empty argument vector without a program name: argc == 0, argv[0] == NULL
    if (src.coin(3))
    {
        st.argv.clear();
        c.via_argv = true;
        c.argc0 = true;
    }
    c.steps.push_back(st);
}

static void gen_c11(vf::Src& src, Case& c, bool exhaustive)
{
    if (exhaustive)
    {
        // the 30 documented words + probes, one toggle, with and without default
        Entry e;
        e.kind = TOGGLE;
        e.name = "t";
        e.env_bound = true;
        e.has_default = src.irange(0, 1) == 1;
        e.tdef = 4;
        c.e.push_back(e);
        Step st = blank_step(c);
        std::vector<std::string> words(om::truthy_words().begin(), om::truthy_words().end());
        words.insert(words.end(), om::falsy_words().begin(), om::falsy_words().end());
        for (const char* w : { "tRUE", "oN", "yes ", " 1", "2", "truee", "-1", "T", "F", "nO", "00",
                               "enable", "disable", "--", "-", "Y ", "NO\n", "OFf", "TRue", "wITH" })
            words.push_back(w);
        st.env_state[0] = 2;
        st.env_word[0] = src.pick(words);
        if (src.irange(0, 1) == 1)
            st.argv.push_back("--t"); // given: env must not be consulted
        c.steps.push_back(st);
        return;
    }
    DeclOpts o;
    o.toggles_only = true;
    o.max_entries = 4;
    o.min_entries = 1;
    o.env = true;
    o.p_default = 45;
    o.dash_letter = true;
    o.p_optional = 100;
    gen_decl(src, c, o);
    gen_limit(src, c);
    c.greedy = false;
    Step st = blank_step(c);
    gen_env(src, c, st, 50);
    std::vector<const Entry*> tg;
    for (auto& e : c.e)
        if (e.kind == TOGGLE)
            tg.push_back(&e);
    int k = src.irange(0, 7);
    for (int i = 0; i < k; ++i)
    {
        if (tg.empty() || src.coin(15))
        {
            // unrelated argument in between
            gen_related_tokens(src, c, st.argv, true);
            continue;
        }
        const Entry& e = *tg[src.index(tg.size())];
        switch (src.weighted({ 25, 20, 15, 20, 20 }))
        {
        case 0:
            st.argv.push_back("--" + e.name);
            break;
        case 1:
            if (!e.short_.empty())
            {
                st.argv.push_back("-" + e.short_);
                break;
            }
            /* fallthrough */
        case 2:
            if (!e.short_.empty())
            {
                // mostly a handful; now and then hundreds, also right at the powers of two
                static const int many[] = { 100, 255, 256, 257, 300, 511, 512, 513, 600 };
                st.argv.push_back("-" + std::string(static_cast<std::size_t>(src.coin(90) ? src.irange(2, 4)
                                                                                         : many[src.index(9)]),
                                                    e.short_[0]));
                break;
            }
            /* fallthrough */
        case 3:
        {
            // bundle across toggles
            std::string t = "-";
            int m = src.irange(2, 4);
            for (int j = 0; j < m; ++j)
            {
                const Entry& x = *tg[src.index(tg.size())];
                if (!x.short_.empty())
                    t += x.short_;
            }
            if (t.size() >= 2)
            {
                st.argv.push_back(t);
                break;
            }
        }
            /* fallthrough */
        default:
            if (e.reversible || src.coin(20))
                st.argv.push_back("--no-" + e.name + (src.coin(6) ? "=" + gen_value(src) : std::string()));
            else
                st.argv.push_back("--" + e.name);
        }
    }
    c.steps.push_back(st);
}

static void gen_c12(vf::Src& src, Case& c)
{
    DeclOpts o;
    o.max_entries = 4;
    o.p_optional = 100;
    gen_decl(src, c, o);
    gen_limit(src, c);
    Step st = blank_step(c);
    // steer the number of positionals to limit-1, limit, limit+1
    // (an accepted count beyond any command line behaves like "unlimited" for the generator)
    int target = c.limit < 0 || c.limit > 1000 ? (src.coin(92) ? src.irange(0, 6) : src.irange(30, 300))
                                               : std::max<int>(0, static_cast<int>(c.limit) + src.irange(-1, 1));
    int placed = 0;
    bool after_dd = false;
    int guard = 0;
    const int guard_max = target > 6 ? 400 : 14;
    while ((placed < target || src.coin(30)) && guard++ < guard_max)
    {
        int w = static_cast<int>(src.weighted({ 35, 25, 15, 25 }));
        if (w == 0)
        {
            std::string v = gen_value(src);
            if (!after_dd && !(c.greedy && placed > 0) && !om::is_value_token(v))
                v = "p" + v;
            st.argv.push_back(v);
            ++placed;
        }
        else if (w == 1)
        {
            // declared option spelling (swallowed after -- / in greedy mode)
            std::size_t before = st.argv.size();
            if (!c.e.empty())
            {
                const Entry& e = c.e[src.index(c.e.size())];
                if (e.kind == TOGGLE)
                    st.argv.push_back(src.coin(50) || e.short_.empty() ? "--" + e.name
                                                                      : "-" + e.short_);
                else
                    st.argv.push_back("--" + e.name + "=" + gen_value(src));
            }
            if ((after_dd || (c.greedy && placed > 0)))
                placed += static_cast<int>(st.argv.size() - before);
        }
        else if (w == 2)
        {
            st.argv.push_back("--");
            if (after_dd || (c.greedy && placed > 0))
                ++placed;
            after_dd = true;
        }
        else
        {
            // option-like / malformed byte strings: only positional after -- or greedy start
            static const std::vector<std::string> odd = { "-",   "---x", "-=x",  "--=",  "--",
                                                          "-\n", "--zz", "-Q",   "---",  "-=" };
            st.argv.push_back(src.coin(80) ? src.pick(odd) : "-" + src.bytes_nonul(0, 4));
            if (after_dd || (c.greedy && placed > 0))
                ++placed;
        }
    }
    int np = static_cast<int>(st.argv.size());
    for (int i = -np - 1; i <= np; ++i)
        c.probe.push_back(i);
    c.via_argv = src.coin(75);
    c.steps.push_back(st);
}

static void gen_c14(vf::Src& src, Case& c)
{
    DeclOpts o;
    o.env = true;
    o.p_optional = 75;
    o.max_entries = 5;
    o.min_entries = 1;
    gen_decl(src, c, o);
    gen_limit(src, c);
    // C14 compares with a fresh parser of the same declaration, not with the reference parser: the
    // declaration may therefore be one the other modes keep away from -
    // a toggle called "no-<X>" next to a toggle X (the spelling --no-X then means both) ...
    std::string no_pair;
    if (src.coin(10))
    {
        int first = -1, second = -1;
        for (std::size_t i = 0; i < c.e.size(); ++i)
            if (c.e[i].kind == TOGGLE)
                (first < 0 ? first : second) = static_cast<int>(i);
        if (first >= 0 && second >= 0 && second != first)
        {
            std::string n = "no-" + c.e[static_cast<std::size_t>(first)].name;
            bool used = false;
            for (auto& e : c.e)
                used |= e.name == n;
            if (!used)
            {
                c.e[static_cast<std::size_t>(second)].name = n;
                no_pair = "--" + n;
            }
        }
    }
    // ... or two entries sharing a letter (such a parser refuses to parse - every time)
    if (src.coin(4))
    {
        int a = -1;
        for (std::size_t i = 0; i < c.e.size(); ++i)
        {
            if (c.e[i].short_.empty())
                continue;
            if (a < 0)
                a = static_cast<int>(i);
            else
            {
                c.e[i].short_ = c.e[static_cast<std::size_t>(a)].short_;
                break;
            }
        }
    }
    if (c.e.size() >= 2 && src.coin(25))
        c.late = src.irange(1, static_cast<int>(c.e.size()) - 1);
    int k = src.irange(2, 6);
    for (int s = 0; s < k; ++s)
    {
        if (s > 0 && src.coin(25))
        {
            // repeat an earlier step verbatim
            c.steps.push_back(c.steps[src.index(c.steps.size())]);
            continue;
        }
        Step st = blank_step(c);
        gen_env(src, c, st, 30);
        // mostly well-formed spellings of a random subset
        for (auto& e : c.e)
        {
            if (!src.coin(45))
                continue;
            if (e.kind == TOGGLE)
            {
                int m = src.irange(1, 3);
                for (int j = 0; j < m; ++j)
                    st.argv.push_back(!e.short_.empty() && src.coin(50) ? "-" + e.short_
                                                                        : "--" + e.name);
                if (e.reversible && src.coin(10))
                    st.argv.back() = "--no-" + e.name;
            }
            else
            {
                int m = e.kind == MULTI ? (src.coin(93) ? src.irange(1, 3) : src.irange(33, 70)) : 1;
                for (int j = 0; j < m; ++j)
                    st.argv.push_back("--" + e.name + "=" + gen_value(src));
            }
        }
        int extra = src.coin(35) ? src.irange(1, 2) : 0;
        for (int j = 0; j < extra; ++j)
            gen_related_tokens(src, c, st.argv, true);
        if (!no_pair.empty() && src.coin(50))
            st.argv.insert(st.argv.begin(), no_pair);
        c.steps.push_back(st);
    }
    // bound variables kept in harness-owned buffers and rewritten in place between the calls
    c.putenv_mode = src.coin(20);
    // a rejected call followed by its legal twin: a bundle with "=value" attached, then the bare bundle; or a
    // reversal next to an unknown token, then the toggle given twice
    {
        std::vector<const Entry*> tl;
        for (auto& e : c.e)
            if (e.kind == TOGGLE && !e.short_.empty() && e.short_ != "-")
                tl.push_back(&e);
        if (tl.size() >= 2 && src.coin(10))
        {
            std::string bundle = "-" + tl[0]->short_ + tl[1]->short_;
            Step a = blank_step(c), b = blank_step(c);
            a.argv = { bundle + "=1" };
            b.argv = { bundle };
            std::size_t at = src.index(c.steps.size());
            c.steps.insert(c.steps.begin() + static_cast<long>(at) + 1, b);
            c.steps.insert(c.steps.begin() + static_cast<long>(at) + 1, a);
        }
        else if (!tl.empty() && src.coin(10))
        {
            const Entry& e = *tl[src.index(tl.size())];
            Step a = blank_step(c), b = blank_step(c);
            a.argv = { "--no-" + e.name, "--zz-unknown-option" };
            b.argv = { src.coin(50) ? "-" + e.short_ : "--" + e.name, "--" + e.name };
            std::size_t at = src.index(c.steps.size());
            c.steps.insert(c.steps.begin() + static_cast<long>(at) + 1, b);
            c.steps.insert(c.steps.begin() + static_cast<long>(at) + 1, a);
        }
    }
    // a later call without any command line at all: parse(0, {NULL})
    if (src.coin(12))
    {
        c.argc0 = true;
        c.steps[1 + src.index(c.steps.size() - 1)].argv.clear();
    }
}

// ---- C11: the environment vocabulary, exhaustively over all short words
// mode "c11vocab<depth>[s]": one case = one block = all words with a fixed first character;
// alphabet: the 95 printable ASCII characters, or (suffix s) 64 of them
static const std::string& vocab_alphabet(int id)
{
    static const std::string full = [] {
        std::string a;
        for (int ch = 32; ch < 127; ++ch)
            a.push_back(static_cast<char>(ch));
        return a;
    }();
    static const std::string small = "abcdefghijklmnopqrstuvwxyzABCDEFGHIJKLMNOPQRSTUVWXYZ0123456789 _";
    return id ? small : full;
}

static std::string check_vocab(const Case& c, vf::Ctx& ctx)
{
    if (c.probe.size() < 3)
        return "";
    const std::string& A = vocab_alphabet(c.probe[2]);
    const int depth = std::max(1, std::min(c.probe[1], 5));
    // depth 5: a block fixes the first two characters (a block stays within the CPU budget of a case)
    const std::size_t plen = depth >= 5 ? 2 : 1;
    const std::size_t nblocks = plen == 2 ? A.size() * A.size() : A.size();
    const std::size_t block = static_cast<std::size_t>(c.probe[0]) % nblocks;
    ctx.tag("vocab:block");
    ctx.mark_nontrivial();
    // the full path (declared toggle, bound variable, parse) for the words of up to two characters
    nitro::options::parser full("vocab");
    full.toggle("t").env("NITRO_VERIF_Vocab");
    std::uint64_t words = 0, through_parser = 0;
    std::string w = plen == 2 ? std::string(1, A[block / A.size()]) + A[block % A.size()] : std::string(1, A[block]);
    std::vector<std::size_t> idx;
    std::string err;
    auto one = [&](const std::string& word) {
        ++words;
        int want = om::truthy_words().count(word) ? 1 : om::falsy_words().count(word) ? 0 : -1;
        int got;
        try
        {
            got = nitro::options::toggle::parse_env_value(word) ? 1 : 0;
        }
        catch (const nitro::options::parsing_error&)
        {
            got = -1;
        }
        catch (const std::exception& e)
        {
            err = "the environment word " + vf::vis(word) + " is not rejected as a user-input error but with: " + e.what();
            return;
        }
        if (got != want)
        {
            err = "the environment word " + vf::vis(word) + " is " +
                  (got < 0 ? "rejected" : got ? "taken as true" : "taken as false") + ", the documented vocabulary says " +
                  (want < 0 ? "rejected (it is not a documented word)" : want ? "true" : "false");
            return;
        }
        if (word.size() <= 2)
        {
            ++through_parser;
            ::setenv("NITRO_VERIF_Vocab", word.c_str(), 1);
            int pg;
            try
            {
                const char* argv[] = { "prog" };
                auto r = full.parse(1, argv);
                pg = static_cast<int>(r.given("t"));
            }
            catch (const nitro::options::parsing_error&)
            {
                pg = -1;
            }
            catch (const std::exception& e)
            {
                err = "a toggle whose variable holds " + vf::vis(word) + ": parse() raised another exception type: " + e.what();
                pg = want;
            }
            ::unsetenv("NITRO_VERIF_Vocab");
            if (err.empty() && pg != want)
                err = "a toggle whose variable holds " + vf::vis(word) + " reports " + std::to_string(pg) +
                      " (-1 = rejected), the documented vocabulary says " + std::to_string(want);
        }
    };
    one(w);
    for (int len = 1; len + static_cast<int>(plen) <= depth && err.empty(); ++len)
    {
        // odometer over all suffixes of this length
        idx.assign(static_cast<std::size_t>(len), 0);
        std::string word = w + std::string(static_cast<std::size_t>(len), A[0]);
        while (err.empty())
        {
            one(word);
            std::size_t pos = idx.size();
            while (pos > 0)
            {
                --pos;
                if (++idx[pos] < A.size())
                {
                    word[plen + pos] = A[idx[pos]];
                    break;
                }
                idx[pos] = 0;
                word[plen + pos] = A[0];
                if (pos == 0)
                {
                    pos = static_cast<std::size_t>(-1);
                    break;
                }
            }
            if (pos == static_cast<std::size_t>(-1))
                break;
        }
    }
    ctx.add("vocab:words", words);
    ctx.add("vocab:words-through-parse", through_parser);
    return err;
}

Case generate(vf::Src& src, const std::string& mode)
{
    Case c;
    c.prop = mode;
    if (mode.rfind("c11vocab", 0) == 0)
    {
        c.prop = "c11vocab";
        int depth = mode.size() > 8 ? mode[8] - '0' : 4;
        int alpha = mode.size() > 9 && mode[9] == 's' ? 1 : 0;
        int na = static_cast<int>(vocab_alphabet(alpha).size());
        c.probe = { src.irange(0, (depth >= 5 ? na * na : na) - 1), depth, alpha };
        return c;
    }
    if (mode == "c01")
    {
        DeclOpts o;
        o.p_optional = 90;
        o.env = true;
        gen_decl(src, c, o);
        gen_limit(src, c);
        if (src.coin(40))
            c.limit = -1;
        Step st = blank_step(c);
        // a bound and set variable must not make a spelled-out argument disappear
        gen_env(src, c, st, 35);
        int k = src.irange(0, 8);
        for (int i = 0; i < k && st.argv.size() < 10; ++i)
            gen_related_tokens(src, c, st.argv, true);
        c.via_argv = src.coin(75);
        c.steps.push_back(st);
    }
    else if (mode == "c02")
    {
        gen_c02(src, c);
        c.via_argv = src.coin(60);
        // a malformed dash token (only possible as a positional behind `--`) cannot be
        // turned into a user_input object, so such a command line only exists as argv
        for (auto& t : c.steps[0].argv)
            if (!om::is_value_token(t) && t != "--" && !om::split_dash_token(t).wellformed)
                c.via_argv = true;
        // part of the declaration may be made only after a first parse() on the object
        if (c.e.size() >= 2 && src.coin(20))
            c.late = src.irange(1, static_cast<int>(c.e.size()) - 1);
        // the command line wins over a bound and set environment variable: which entries the
        // rendering gives on the command line is read off the reference parser (no variable is
        // bound yet, so "provided" means "given on the command line")
        {
            om::Outcome m = om::model_parse(c, c.steps[0]);
            for (std::size_t i = 0; i < c.e.size(); ++i)
            {
                Entry& e = c.e[i];
                if (m.cls == 0 && m.provided.count(e.name) && src.coin(25))
                {
                    e.env_bound = true;
                    c.steps[0].env_state[i] = 2;
                    c.steps[0].env_word[i] = e.kind == TOGGLE ? "no" : "from-env;x";
                }
            }
        }
    }
    else if (mode == "c03")
        gen_c03(src, c, false);
    else if (mode == "c03ex")
    {
        c.prop = "c03";
        gen_c03(src, c, true);
    }
    else if (mode == "c04" || mode == "fuzz")
    {
        c.prop = "c04";
        gen_c04(src, c);
    }
    else if (mode == "c11")
        gen_c11(src, c, false);
    else if (mode == "c11ex")
    {
        c.prop = "c11";
        gen_c11(src, c, true);
    }
    else if (mode == "c12")
        gen_c12(src, c);
    else if (mode == "c14")
        gen_c14(src, c);
    else
        throw std::runtime_error("unknown mode " + mode);
    // bytes that C-string handling or line-oriented tooling treats specially, at the places where
    // they would be lost: a carriage return at the very end of the last argument, a NUL inside a
    // token (a token can only hold one when it is handed over as a user_input object)
    if ((mode == "c01" || mode == "c04" || mode == "c12") && !c.steps.empty() && !c.steps[0].argv.empty() &&
        !c.argc0)
    {
        auto& argv = c.steps[0].argv;
        if (src.coin(4))
            argv.back() += "\r";
        if (!c.via_argv && src.coin(6))
        {
            std::string& t = argv[src.index(argv.size())];
            t.push_back('\0');
            t += src.coin(60) ? "q" : "";
        }
    }
    // unrelated variables whose names merely start with, or end in, the name of a bound variable
    if (mode != "c03ex" && mode != "c11ex")
        for (auto& st : c.steps)
            if (src.coin(8))
                st.neighbours = 1;
    // part of the declaration may be made only after a first parse() on the object (c02 and c14
    // decide that themselves)
    if ((mode == "c01" || mode == "c03" || mode == "c04" || mode == "c11" || mode == "c12") &&
        c.e.size() >= 2 && src.coin(12))
        c.late = src.irange(1, static_cast<int>(c.e.size()) - 1);
    // The outcome belongs to the declaration, not to the object it was made on: now and then the
    // parser is moved (by construction, or by assignment onto a parser that was already used)
    if (mode != "c03ex" && mode != "c11ex" && src.coin(15))
        c.moved = src.irange(1, 2);
    // The statements hold for every parse() on a parser object, not only the first one: in a
    // third of the cases an unrelated command line is parsed on the same object beforehand
    // (its outcome is ignored), then the case proper.
    if ((mode == "c01" || mode == "c02" || mode == "c03" || mode == "c04" || mode == "c11" || mode == "c12") &&
        src.coin(30))
    {
        Step warm = blank_step(c);
        int k = src.irange(0, 4);
        for (int i = 0; i < k; ++i)
        {
            if (src.coin(20))
                warm.argv.push_back("--");
            else
                gen_related_tokens(src, c, warm.argv, true);
        }
        if (src.coin(30))
            warm = c.steps[0]; // or the very same command line twice
        else
            gen_env(src, c, warm, 30);
        c.steps.insert(c.steps.begin(), warm);
    }
    return c;
}

// ------------------------------------------------------------------ oracles

static bool same_outcome(const om::Outcome& a, const om::Outcome& b)
{
    if (a.cls != b.cls)
        return false;
    if (a.cls != 0)
        return true;
    return om::diff_results(a, b).empty();
}

static bool plain_alnum(const std::string& s)
{
    if (s.empty())
        return false;
    for (unsigned char ch : s)
        if (!std::isalnum(ch))
            return false;
    return true;
}

static std::string check_c02_typed(const Case& c, const Step& st, vf::Ctx& ctx)
{
    // typed access returns the number whose decimal text was given
    auto p = om::build_parser(c);
    om::apply_env(c, st);
    std::vector<const char*> av;
    av.push_back("prog");
    for (auto& s : st.argv)
        av.push_back(s.c_str());
    nitro::options::arguments args;
    try
    {
        args = p->parse(static_cast<int>(av.size()), av.data());
    }
    catch (const std::exception&)
    {
        return ""; // reported by the round-trip oracle
    }
    auto is_int = [](const std::string& s, bool allow_neg) {
        std::size_t i = 0;
        if (allow_neg && !s.empty() && s[0] == '-')
            i = 1;
        if (s.size() - i < 1 || s.size() - i > 9)
            return false;
        for (; i < s.size(); ++i)
            if (s[i] < '0' || s[i] > '9')
                return false;
        return true;
    };
    // typed access to values that are not (entirely) numbers comes first: whatever it yields or raises,
    // it must not influence the reads that follow
    for (auto& e : c.e)
        if (e.kind == OPTION && e.want.size() == 1 && !is_int(e.want[0], true))
        {
            try
            {
                (void)args.as<int>(e.name);
            }
            catch (const std::exception&)
            {
            }
            try
            {
                (void)args.as<double>(e.name);
            }
            catch (const std::exception&)
            {
            }
            try
            {
                (void)args.as<long>(e.name);
            }
            catch (const std::exception&)
            {
            }
        }
    for (auto& e : c.e)
    {
        if (e.kind == OPTION && e.want.size() == 1)
        {
            const std::string& t = e.want[0];
            if (is_int(t, true))
            {
                ctx.tag("c02:typed-int");
                long want = std::strtol(t.c_str(), nullptr, 10);
                if (args.as<int>(e.name) != static_cast<int>(want))
                    return "as<int>(" + e.name + ") of " + vf::vis(t) + " gives " +
                           std::to_string(args.as<int>(e.name));
                if (args.as<long>(e.name) != want)
                    return "as<long>(" + e.name + ") differs from strtol";
                if (is_int(t, false) &&
                    args.as<unsigned>(e.name) != static_cast<unsigned>(std::strtoul(t.c_str(), nullptr, 10)))
                    return "as<unsigned>(" + e.name + ") differs from strtoul";
                if (args.as<double>(e.name) != std::strtod(t.c_str(), nullptr))
                    return "as<double>(" + e.name + ") differs from strtod";
            }
            else
            {
                // wider integers and decimal fractions: [-]digits[.digits]
                std::size_t i = !t.empty() && t[0] == '-' ? 1 : 0, digits = 0, frac = 0;
                bool dot = false, ok = t.size() > i;
                for (std::size_t k = i; k < t.size() && ok; ++k)
                {
                    if (t[k] == '.' && !dot && k > i && k + 1 < t.size())
                        dot = true;
                    else if (t[k] >= '0' && t[k] <= '9')
                        (dot ? frac : digits)++;
                    else
                        ok = false;
                }
                if (ok && !dot && digits >= 16 && digits <= 20)
                {
                    // integers up to the ends of the 64-bit ranges, read with the type that holds them
                    errno = 0;
                    unsigned long long u = std::strtoull(t.c_str() + i, nullptr, 10);
                    bool u_ok = errno == 0;
                    errno = 0;
                    long long sll = std::strtoll(t.c_str(), nullptr, 10);
                    bool s_ok = errno == 0;
                    ctx.tag("c02:typed-64-bit-extremes");
                    if (i == 0 && u_ok)
                    {
                        if (args.as<unsigned long long>(e.name) != u)
                            return "as<unsigned long long>(" + e.name + ") of " + vf::vis(t) + " gives " +
                                   std::to_string(args.as<unsigned long long>(e.name));
                        if (args.as<std::size_t>(e.name) != u || args.as<std::uint64_t>(e.name) != u)
                            return "as<size_t>/as<uint64_t>(" + e.name + ") of " + vf::vis(t) + " differ from strtoull";
                    }
                    if (s_ok && args.as<long long>(e.name) != sll)
                        return "as<long long>(" + e.name + ") of " + vf::vis(t) + " gives " +
                               std::to_string(args.as<long long>(e.name));
                }
                if (ok && digits >= 1 && digits <= 15 && frac <= 6)
                {
                    ctx.tag(dot ? "c02:typed-double" : "c02:typed-int");
                    if (args.as<double>(e.name) != std::strtod(t.c_str(), nullptr))
                        return "as<double>(" + e.name + ") of " + vf::vis(t) + " differs from strtod";
                    if (args.as<float>(e.name) != std::strtof(t.c_str(), nullptr))
                        return "as<float>(" + e.name + ") of " + vf::vis(t) + " differs from strtof";
                    if (!dot)
                    {
                        if (args.as<long long>(e.name) != std::strtoll(t.c_str(), nullptr, 10))
                            return "as<long long>(" + e.name + ") of " + vf::vis(t) + " differs from strtoll";
                        if (i == 0 && args.as<unsigned long>(e.name) != std::strtoul(t.c_str(), nullptr, 10))
                            return "as<unsigned long>(" + e.name + ") differs from strtoul";
                    }
                }
            }
            if (args.as<std::string>(e.name) != t)
                return "as<std::string>(" + e.name + ") differs from the given text";
        }
        if (e.kind == MULTI)
            for (std::size_t k = 0; k < e.want.size() && k < args.count(e.name); ++k)
                if (is_int(e.want[k], true))
                {
                    ctx.tag("c02:typed-int-multi");
                    if (args.as<int>(e.name, k) !=
                        static_cast<int>(std::strtol(e.want[k].c_str(), nullptr, 10)))
                        return "as<int>(" + e.name + "," + std::to_string(k) + ") differs from strtol";
                }
    }
    return "";
}

std::string check(const Case& c0, vf::Ctx& ctx)
{
    Case c = c0;
    if (c.prop == "c11vocab")
        return check_vocab(c, ctx);
    for (auto& st : c.steps)
    {
        st.env_state.resize(c.e.size(), 0);
        st.env_word.resize(c.e.size(), "");
    }
    if (c.steps.empty())
        return "";
    om::clear_env();
    ctx.tag("prop:" + c.prop);

    struct EnvGuard
    {
        ~EnvGuard()
        {
            om::clear_env();
        }
    } env_guard;

    std::unique_ptr<nitro::options::parser> parser;
    const std::size_t early = c.e.size() - std::min<std::size_t>(static_cast<std::size_t>(std::max(0, c.late)), c.e.size());
    try
    {
        parser = om::build_parser(c, c.prop == "c14" ? early : static_cast<std::size_t>(-1));
        if (c.prop != "c14" && c.late > 0)
        {
            // a first parse() (empty command line, outcome ignored) on the partial declaration,
            // then the rest of the declaration is made on the same object
            parser = om::build_parser(c, early);
            ctx.tag("late-declaration");
            // half of the time the rest is declared through group references that the caller
            // obtained before the first parse and held on to
            om::HeldGroups held;
            bool use_held = c.late % 2 == 1;
            if (use_held)
                held.fetch(parser.get());
            try
            {
                std::vector<const char*> av = { "prog" };
                (void)parser->parse(1, av.data());
            }
            catch (const std::exception&)
            {
            }
            om::declare_entries(parser.get(), c, early, c.e.size(), use_held ? &held : nullptr);
        }
    }
    catch (const std::exception& e)
    {
        return std::string("harness: declaration rejected (generator must build valid parsers): ") +
               e.what();
    }

    if (c.prop == "c14")
    {
        bool earlier_failed = false, earlier_set = false, nontrivial = false;
        std::set<std::string> earlier_argvs;
        om::PrevResult prev14; // the previous result stays alive; its strings may be passed as argv
        om::HeldGroups held14;
        if (c.late > 0 && c.late % 2)
            held14.fetch(parser.get());
        for (std::size_t k = 0; k < c.steps.size(); ++k)
        {
            const Step& st = c.steps[k];
            // with late declarations the first step runs on the partial declaration; the rest of
            // the entries is declared on the same object afterwards
            Case partial = c;
            if (k == 0 && c.late > 0)
            {
                partial.e.resize(early);
                ctx.tag("late-declaration");
            }
            const Case& cc = (k == 0 && c.late > 0) ? partial : c;
            om::Outcome shared = om::real_parse(*parser, cc, st, nullptr, &prev14);
            auto fresh_parser = om::build_parser(cc);
            om::Outcome fresh = om::real_parse(*fresh_parser, cc, st);
            if (k == 0 && c.late > 0)
                om::declare_entries(parser.get(), c, early, c.e.size(), c.late % 2 ? &held14 : nullptr);
            if (k >= 1 && (earlier_failed || earlier_set))
                nontrivial = true;
            // (a declaration with a shared letter is refused with the developer error, by both)
            if (shared.cls >= 2 && fresh.cls != shared.cls)
                return "step " + std::to_string(k) + ": " + om::outcome_str(shared) + " escaped";
            if (!same_outcome(shared, fresh))
                return "step " + std::to_string(k) + " on the reused parser gives " +
                       om::outcome_str(shared) + " but a fresh identical parser gives " +
                       om::outcome_str(fresh);
            if (shared.cls != 0)
                earlier_failed = true;
            if (!st.argv.empty())
                earlier_set = true;
            if (earlier_argvs.count(om::list_str(st.argv)))
                ctx.tag("c14:repeated-argv");
            earlier_argvs.insert(om::list_str(st.argv));
        }
        if (earlier_failed)
            ctx.tag("c14:has-failing-step");
        if (nontrivial)
            ctx.mark_nontrivial();
        return "";
    }

    if (c.moved == 1)
    {
        ctx.tag("parser:move-constructed");
        parser = std::make_unique<nitro::options::parser>(std::move(*parser));
    }
    else if (c.moved == 2)
    {
        // move assignment onto a parser that has a life of its own: other settings, toggles for
        // every letter (so it accepts any bundle), and it already parsed this very command line
        ctx.tag("parser:move-assigned");
        auto other = std::make_unique<nitro::options::parser>("other", "other about");
        {
            int k = 0;
            for (char ch : std::string("abovxyzn1_.A:QZ7"))
            {
                bool used = false;
                for (auto& e : c.e)
                    used |= e.short_ == std::string(1, ch);
                if (!used)
                    other->toggle("zz-other-" + std::to_string(k++), "d").short_name(std::string(1, ch));
            }
            for (auto& e : c.e)
                if (e.kind == TOGGLE && !e.short_.empty())
                    other->toggle("zz-twin-" + std::to_string(k++), "d").short_name(e.short_);
            if (!c.greedy)
                other->greedy_postionals();
            other->accept_positionals(c.limit == 1 ? 2 : 1);
            try
            {
                std::vector<const char*> av = { "prog" };
                for (auto& t : c.steps.back().argv)
                    av.push_back(t.c_str());
                (void)other->parse(static_cast<int>(av.size()), av.data());
            }
            catch (const std::exception&)
            {
            }
        }
        *other = std::move(*parser);
        parser = std::move(other);
    }
    // earlier steps are warm-up parses on the same object; their outcome is ignored
    om::PrevResult earlier;
    for (std::size_t k = 0; k + 1 < c.steps.size(); ++k)
    {
        ctx.tag("warmup-parse");
        (void)om::real_parse(*parser, c, c.steps[k], nullptr, &earlier);
    }
    const Step& st = c.steps.back();
    om::clear_env();
    om::Outcome model = om::model_parse(c, st);
    if (!c.via_argv)
    {
        // parse(vector<user_input>): a malformed dash token cannot even be
        // constructed - the user_input constructor raises the user-input error
        // wherever the token stands
        for (auto& t : st.argv)
            if (!om::is_value_token(t) && t != "--" && !om::split_dash_token(t).wellformed)
            {
                model = om::Outcome();
                model.cls = 1;
                model.reason = "malformed";
                model.what = "malformed dash token cannot be made a user_input";
            }
    }
    std::vector<om::Probe> probes;
    for (int i : c.probe)
        probes.push_back(om::Probe{ i, false, "", false, "" });
    om::Outcome real = om::real_parse(*parser, c, st, &probes, &earlier);
    // a result keeps reporting the positionals of ITS command line, whatever is parsed later
    for (std::size_t k = 0; k + 1 < earlier.all.size(); ++k)
        if (earlier.all[k].positionals() != earlier.all_pos[k])
            return "the positionals of an earlier result changed when the same parser parsed another "
                   "command line: were " + om::list_str(earlier.all_pos[k]) + ", now " +
                   om::list_str(earlier.all[k].positionals());

    // ---- classification
    if (model.has_bundle)
        ctx.tag("argv:bundle");
    if (model.has_mixed_bundle)
        ctx.tag("argv:mixed-bundle");
    if (model.has_unknown)
        ctx.tag("argv:unknown");
    if (model.dd_seen)
        ctx.tag("argv:double-dash");
    if (model.optlike_after_dd)
        ctx.tag("argv:optionlike-after-dd");
    if (model.greedy_swallowed_option)
        ctx.tag("argv:greedy-swallow");
    if (model.cls)
        ctx.tag("model:reject:" + model.reason);
    else
        ctx.tag(model.unspecified ? "model:unspecified" : "model:accept");
    std::size_t maxlen = 0;
    for (auto& t : st.argv)
        maxlen = std::max(maxlen, t.size());
    if (maxlen > 4096)
        ctx.tag("argv:token>4k");

    bool env_used = false, fell_through = false;
    for (std::size_t i = 0; i < c.e.size(); ++i)
    {
        if (!c.e[i].env_bound)
            continue;
        bool on_cmd = model.cls == 0 && model.provided.count(c.e[i].name) && false;
        (void)on_cmd;
        if (st.env_state[i] == 2)
            env_used = true;
        else
            fell_through = true;
    }

    if (c.prop == "c01")
    {
        if (model.has_bundle || model.has_unknown)
            ctx.mark_nontrivial();
        if (model.has_bundle && model.cls == 0)
            ctx.tag("c01:accepted-with-bundle");
    }
    else if (c.prop == "c02")
    {
        std::set<char> forms;
        bool special = false;
        for (auto& t : st.argv)
        {
            if (t.size() > 2 && t[0] == '-' && t[1] == '-' && t.find('=') != std::string::npos)
                forms.insert('L');
            else if (t.size() > 2 && t[0] == '-' && t[1] == '-')
                forms.insert('l');
            else if (t.size() >= 2 && t[0] == '-' && t.find('=') != std::string::npos)
                forms.insert('S');
            else if (t.size() >= 2 && t[0] == '-')
                forms.insert('s');
        }
        for (auto& e : c.e)
            for (auto& v : e.want)
                if (!plain_alnum(v))
                    special = true;
        for (auto& v : c.want_pos)
            if (!plain_alnum(v))
                special = true;
        if (special)
            ctx.tag("c02:special-value");
        if (forms.size() >= 2 || special)
            ctx.mark_nontrivial();
    }
    else if (c.prop == "c03")
    {
        if (env_used || fell_through)
            ctx.mark_nontrivial();
        if (env_used)
            ctx.tag("c03:env-word-set");
    }
    else if (c.prop == "c04")
    {
        bool odd = model.cls != 0 || maxlen > 4096;
        for (auto& t : st.argv)
            if (!om::is_value_token(t))
                odd = true;
        if (odd)
            ctx.mark_nontrivial();
    }
    else if (c.prop == "c11")
    {
        bool nt = env_used || fell_through;
        std::map<std::string, std::set<std::string>> spellings;
        for (auto& e : c.e)
        {
            if (e.kind != TOGGLE)
                continue;
            int occ = 0;
            std::set<std::string> forms;
            bool posi = false, nega = false;
            for (auto& t : st.argv)
            {
                if (t == "--" + e.name)
                {
                    ++occ;
                    forms.insert("long");
                    posi = true;
                }
                else if (t == "--no-" + e.name)
                    nega = true;
                else if (!e.short_.empty() && t.size() >= 2 && t[0] == '-' && t[1] != '-' &&
                         t.find(e.short_) != std::string::npos)
                {
                    occ += static_cast<int>(std::count(t.begin() + 1, t.end(), e.short_[0]));
                    forms.insert(t.size() == 2 ? "short" : "bundle");
                    posi = true;
                }
            }
            if ((occ >= 2 && forms.size() >= 2) || (posi && nega))
                nt = true;
            if (posi && nega)
                ctx.tag("c11:both-polarities");
            if (e.has_default && occ == 0 && !nega)
                nt = true;
        }
        if (nt)
            ctx.mark_nontrivial();
    }
    else if (c.prop == "c12")
    {
        bool near_limit = c.limit >= 0 && model.cls == 0 &&
                          std::llabs(static_cast<long long>(model.pos.size()) - c.limit) <= 1;
        if (model.reason == "too-many-positionals")
            near_limit = true;
        if (model.optlike_after_dd || model.greedy_swallowed_option || near_limit)
            ctx.mark_nontrivial();
        if (near_limit)
            ctx.tag("c12:near-limit");
    }

    // ---- differential against the model (all properties)
    std::string msg = om::compare(real, model);
    if (!msg.empty())
        return msg;

    // ---- property specific oracles
    if (c.prop == "c02")
    {
        if (real.cls != 0)
            return "round trip: the rendering was rejected: " + om::outcome_str(real);
        for (auto& e : c.e)
        {
            if (e.kind == OPTION)
            {
                auto got = real.opt[e.name];
                if (e.want.empty())
                {
                    if (got.first)
                        return "round trip: option " + e.name + " has a value although none was given";
                }
                else if (!got.first || got.second != e.want[0])
                    return "round trip: option " + e.name + " = " +
                           (got.first ? vf::vis(got.second) : "<absent>") + ", assignment says " +
                           vf::vis(e.want[0]);
            }
            else if (e.kind == MULTI)
            {
                if (real.multi[e.name] != e.want)
                    return "round trip: multi-option " + e.name + " = " +
                           om::list_str(real.multi[e.name]) + ", assignment says " +
                           om::list_str(e.want);
            }
            else if (real.tog[e.name] != e.want_count)
                return "round trip: toggle " + e.name + " counted " +
                       std::to_string(real.tog[e.name]) + ", assignment says " +
                       std::to_string(e.want_count);
        }
        if (real.pos != c.want_pos)
            return "round trip: positionals " + om::list_str(real.pos) + ", assignment says " +
                   om::list_str(c.want_pos);
        std::string t = check_c02_typed(c, st, ctx);
        if (!t.empty())
            return t;
    }
    if (c.prop == "c12" && real.cls == 0)
    {
        int n = static_cast<int>(real.pos.size());
        for (auto& pr : probes)
        {
            bool in_range = pr.index >= -n && pr.index < n;
            if (!in_range)
            {
                // only [-n-1, n] is probed: both just outside
                if (pr.index == -n - 1 || pr.index == n)
                {
                    if (!pr.raised || !pr.raised_br)
                        return "positional index " + std::to_string(pr.index) + " with n=" +
                               std::to_string(n) + " did not raise";
                }
                continue;
            }
            const std::string& want =
                real.pos[static_cast<std::size_t>(pr.index < 0 ? n + pr.index : pr.index)];
            if (pr.raised || pr.raised_br || pr.value != want || pr.value_br != want)
                return "positional index " + std::to_string(pr.index) + " with n=" +
                       std::to_string(n) + " gives " +
                       (pr.raised ? std::string("<raised>") : vf::vis(pr.value)) + ", expected " +
                       vf::vis(want);
            if (pr.index < 0)
                ctx.tag("c12:negative-index-probed");
        }
    }
    return "";
}
} // namespace h

#define VF_WATCHDOG_SECONDS 20
#include "common/vmain.hpp"
