// C06 / C07 — nitro::lang::fixed_vector. Histories over a pool of three
// vectors, element types Tracked (copyable) and MoTracked (move-only).
//   prop c06: storage/validity invariants after every step, unsatisfiable
//             operations raise and leave the container unchanged, element
//             accounting (no leak, no double destruction) also under injected
//             element faults and for moved-from containers; ASan/UBSan/LSan.
//   prop c07: model-based - a std::vector<int> bounded by the capacity is the
//             reference; size/indexing/iteration (forward and reverse, all
//             overloads) are compared after every step.
#include "common/tracked.hpp"
#include "common/vcommon.hpp"

#include <memory>
#include <nitro/lang/fixed_vector.hpp>

#include <array>
#include <iterator>
#include <optional>

namespace h
{
enum Code
{
    CONSTRUCT = 0,
    CONSTRUCT_ITER,
    CONSTRUCT_LIST,
    COPY_CONSTRUCT,
    MOVE_CONSTRUCT,
    COPY_ASSIGN,
    MOVE_ASSIGN,
    LIST_ASSIGN,
    EMPLACE_BACK,
    INSERT_CREF,
    INSERT_RVAL,
    PUSH_BACK_CREF,
    PUSH_BACK_RANGE,
    INSERT_RANGE,
    INSERT_LIST,
    EMPLACE_POS,
    ERASE,
    POP_BACK,
    AT,
    GET,
    WRITE,
    DESTROY,
    EMPLACE_POS_ALIAS, // emplace(pos, v[k]): the argument refers to an element of the vector itself
    APPEND_ALIAS,      // emplace_back(v[k]) / insert(v[k]) / push_back(v[k])
    EMPLACE_BACK_NOARGS, // emplace_back() with an empty argument pack: appends a default value
    APPEND_INPUT_RANGE,  // push_back(first, last) / insert(end(), first, last) with single-pass iterators
    CODE_COUNT
};

static const char* code_name(int c)
{
    static const char* n[] = { "construct",   "construct_iter", "construct_list", "copy_construct",
                               "move_construct", "copy_assign",  "move_assign",   "list_assign",
                               "emplace_back", "insert(const&)", "insert(&&)",    "push_back(const&)",
                               "push_back(range)", "insert(pos,range)", "insert(pos,list)",
                               "emplace(pos)", "erase",          "pop_back",      "at",
                               "std::get",    "write",          "destroy",
                               "emplace(pos,self-element)", "append(self-element)",
                               "emplace_back()", "append(single-pass range)" };
    return c >= 0 && c < CODE_COUNT ? n[c] : "?";
}

struct Op
{
    int code = 0;
    int a = 0;     // target slot
    int b = 0;     // source slot / position / index / capacity
    int fault = 0; // 0: none, n: the n-th element copy/move inside this op throws
    std::vector<int> vals;

    template <class A>
    void io(A& x)
    {
        x("code", code);
        x("a", a);
        x("b", b);
        x("fault", fault);
        x("vals", vals);
    }
};

struct Case
{
    std::string prop = "c06";
    int elem = 0; // 0 Tracked, 1 MoTracked, 2 NxTracked (all special members noexcept)
    std::vector<Op> ops;

    template <class A>
    void io(A& x)
    {
        x("prop", prop);
        x("elem", elem);
        x("ops", ops);
    }
};

const char* property_ids()
{
    return "C06,C07";
}

std::string describe(const Case& c)
{
    std::ostringstream o;
    o << c.prop << " fixed_vector<" << (c.elem == 1 ? "MoTracked" : c.elem == 2 ? "NxTracked" : c.elem == 3 ? "CaTracked" : "Tracked") << ">:";
    for (auto& op : c.ops)
    {
        o << " " << code_name(op.code) << "(s" << op.a;
        switch (op.code)
        {
        case CONSTRUCT:
            o << ",cap=" << op.b;
            break;
        case CONSTRUCT_ITER:
            o << ",cap=" << op.b;
            break;
        case COPY_CONSTRUCT:
        case MOVE_CONSTRUCT:
        case COPY_ASSIGN:
        case MOVE_ASSIGN:
            o << "<-s" << op.b;
            break;
        case INSERT_RANGE:
        case INSERT_LIST:
        case EMPLACE_POS:
        case ERASE:
        case AT:
        case GET:
        case WRITE:
            o << ",@" << op.b;
            break;
        default:
            break;
        }
        if (!op.vals.empty())
        {
            o << ",[";
            for (std::size_t i = 0; i < op.vals.size(); ++i)
                o << (i ? "," : "") << op.vals[i];
            o << "]";
        }
        if (op.fault > 0)
            o << ",fault@" << op.fault;
        if (op.fault < 0)
            o << ",element-constructor-throws";
        o << ")";
    }
    return o.str();
}

// ---------------------------------------------------------------- generators

static const int NSLOT = 3;

// capacity code -> capacity: 0..6 are themselves, larger codes select sizes around powers of two
static std::size_t capacity_of(int code)
{
    static const std::size_t big[] = { 7, 8, 9, 15, 16, 17, 31, 32, 33, 63, 64, 65, 100 };
    if (code < 0)
        return 0;
    if (code <= 6)
        return static_cast<std::size_t>(code);
    return big[static_cast<std::size_t>(code - 7) % 13];
}

static std::vector<int> gen_vals(vf::Src& src, int lo, int hi, bool small)
{
    int n = src.irange(lo, hi);
    std::vector<int> v;
    for (int i = 0; i < n; ++i)
        v.push_back(small ? src.irange(1, 3) : src.irange(1, 1000000));
    return v;
}

Case generate(vf::Src& src, const std::string& mode)
{
    Case c;
    bool ex = mode.rfind("ex", 0) == 0; // ex06_<depth>, ex07_<depth>
    bool is07 = mode.find("07") != std::string::npos;
    c.prop = is07 ? "c07" : "c06";
    if (ex)
    {
        // small-scope exhaustive: one or two slots, capacities 0..2, short alphabet
        int depth = std::atoi(mode.substr(mode.find('_') + 1).c_str());
        c.elem = 0;
        Op first;
        first.code = CONSTRUCT;
        first.a = 0;
        first.b = src.irange(0, 2);
        c.ops.push_back(first);
        for (int i = 0; i < depth; ++i)
        {
            Op op;
            // 14 argument-complete operations
            static const int alphabet[] = { EMPLACE_BACK, INSERT_CREF,  PUSH_BACK_CREF, EMPLACE_POS,
                                            ERASE,        POP_BACK,     AT,             COPY_CONSTRUCT,
                                            MOVE_CONSTRUCT, COPY_ASSIGN, MOVE_ASSIGN,   LIST_ASSIGN,
                                            PUSH_BACK_RANGE, GET };
            op.code = alphabet[src.irange(0, 13)];
            switch (op.code)
            {
            case EMPLACE_BACK:
            case INSERT_CREF:
            case PUSH_BACK_CREF:
                op.a = 0;
                op.vals = { i + 1 };
                break;
            case EMPLACE_POS:
                op.a = 0;
                op.b = src.irange(0, 2);
                op.vals = { i + 1 };
                break;
            case ERASE:
            case AT:
            case GET:
                op.a = 0;
                op.b = src.irange(0, 2);
                break;
            case COPY_CONSTRUCT:
            case MOVE_CONSTRUCT:
                op.a = 1;
                op.b = 0;
                break;
            case COPY_ASSIGN:
            case MOVE_ASSIGN:
                op.a = 0;
                op.b = 1;
                break;
            case LIST_ASSIGN:
                op.a = 0;
                op.vals = std::vector<int>(static_cast<std::size_t>(src.irange(0, 2)), 7);
                break;
            case PUSH_BACK_RANGE:
                op.a = 0;
                op.vals = std::vector<int>(static_cast<std::size_t>(src.irange(1, 2)), 9);
                break;
            default:
                op.a = 0;
            }
            c.ops.push_back(op);
        }
        return c;
    }

    c.elem = is07 ? (src.coin(25) ? 1 : 0) : (src.coin(40) ? 1 : 0);
    if (c.elem == 0 && src.coin(25))
        c.elem = 2;
    else if (c.elem == 0 && src.coin(20))
        c.elem = 3;
    int n = src.irange(1, 30);
    bool faults = !is07 && src.coin(25);
    for (int i = 0; i < n; ++i)
    {
        if (i > 0 && src.skip())
            continue; // lets the shrinker drop operations
        Op op;
        op.a = src.irange(0, NSLOT - 1);
        // weights: constructions early, mutations mostly
        int w = static_cast<int>(src.weighted({
            8,  // CONSTRUCT
            4,  // CONSTRUCT_ITER
            3,  // CONSTRUCT_LIST
            5,  // COPY_CONSTRUCT
            5,  // MOVE_CONSTRUCT
            5,  // COPY_ASSIGN
            5,  // MOVE_ASSIGN
            3,  // LIST_ASSIGN
            10, // EMPLACE_BACK
            6,  // INSERT_CREF
            6,  // INSERT_RVAL
            6,  // PUSH_BACK_CREF
            4,  // PUSH_BACK_RANGE
            3,  // INSERT_RANGE
            2,  // INSERT_LIST
            8,  // EMPLACE_POS
            8,  // ERASE
            6,  // POP_BACK
            6,  // AT
            3,  // GET
            3,  // WRITE
            2,  // DESTROY
            3,  // EMPLACE_POS_ALIAS
            3,  // APPEND_ALIAS
            3,  // EMPLACE_BACK_NOARGS
            3   // APPEND_INPUT_RANGE
        }));
        op.code = w;
        if (i == 0)
            op.code = CONSTRUCT;
        switch (op.code)
        {
        case CONSTRUCT:
            op.b = static_cast<int>(src.weighted({ 15, 15, 15, 15, 15, 10, 15 })); // capacity 0..6
            if (src.coin(8))
                op.b = 7 + src.irange(0, 12); // now and then a capacity around a power of two
            break;
        case CONSTRUCT_ITER:
            op.b = src.irange(0, 6);
            op.vals = gen_vals(src, 0, 7, false);
            if (src.coin(8))
            {
                op.b = 7 + src.irange(0, 12);
                op.vals = gen_vals(src, 0, 70, false);
            }
            break;
        case CONSTRUCT_LIST:
        case LIST_ASSIGN:
            op.vals = gen_vals(src, 0, 4, false);
            break;
        case COPY_CONSTRUCT:
        case MOVE_CONSTRUCT:
        case COPY_ASSIGN:
        case MOVE_ASSIGN:
            op.b = src.irange(0, NSLOT - 1);
            break;
        case EMPLACE_BACK:
        case INSERT_CREF:
        case INSERT_RVAL:
        case PUSH_BACK_CREF:
            op.vals = gen_vals(src, 1, 1, false);
            break;
        case PUSH_BACK_RANGE:
            op.vals = gen_vals(src, 0, 4, false);
            if (src.coin(10))
                op.vals = gen_vals(src, 5, 70, false); // bulk append (fills the large capacities)
            break;
        case INSERT_RANGE:
        case INSERT_LIST:
            op.b = src.irange(0, 8);
            op.vals = gen_vals(src, 0, 4, false);
            break;
        case EMPLACE_POS:
            op.b = src.coin(85) ? src.irange(0, 8) : src.irange(0, 110);
            op.vals = gen_vals(src, 1, 1, false);
            break;
        case ERASE:
        case AT:
        case GET:
        case WRITE:
            op.b = src.coin(85) ? src.irange(0, 8) : src.irange(0, 110);
            op.vals = gen_vals(src, 1, 1, false);
            break;
        case EMPLACE_POS_ALIAS:
        case APPEND_ALIAS:
            op.b = src.irange(0, 8);            // position / spelling
            op.vals = { src.irange(0, 8) };     // index of the element passed as argument
            break;
        case APPEND_INPUT_RANGE:
            op.b = src.irange(0, 1);
            op.vals = gen_vals(src, 0, 5, false);
            break;
        default:
            break;
        }
        if (faults && src.coin(30))
            op.fault = src.irange(1, 4);
        // the element constructor itself throws (only meaningful where the container
        // constructs the element: emplace_back / emplace)
        if (faults && (op.code == EMPLACE_BACK || op.code == EMPLACE_POS) && src.coin(25))
            op.fault = -1;
        c.ops.push_back(op);
    }
    return c;
}

// ------------------------------------------------------------------ interpreter

// a single-pass (input) iterator over a shared cursor: copies advance together, a range can be
// walked exactly once (like std::istream_iterator)
template <class T>
struct OnePass
{
    using iterator_category = std::input_iterator_tag;
    using value_type = T;
    using difference_type = std::ptrdiff_t;
    using pointer = const T*;
    using reference = const T&;
    std::shared_ptr<std::size_t> cursor; // null = end
    const std::vector<T>* src = nullptr;
    bool at_end() const
    {
        return !cursor || *cursor >= src->size();
    }
    const T& operator*() const
    {
        return (*src)[*cursor];
    }
    OnePass& operator++()
    {
        ++*cursor;
        return *this;
    }
    OnePass operator++(int)
    {
        OnePass old = *this;
        ++*cursor;
        return old;
    }
    bool operator==(const OnePass& o) const
    {
        return at_end() == o.at_end();
    }
    bool operator!=(const OnePass& o) const
    {
        return !(*this == o);
    }
};

struct Model
{
    bool exists = false;
    std::size_t cap = 0;
    std::vector<int> v;
    bool unspecified = false; // moved-from / after fault: contents taken from the container
};

template <class T>
struct Runner
{
    using FV = nitro::lang::fixed_vector<T>;
    std::array<std::unique_ptr<FV>, NSLOT> slot;
    std::array<Model, NSLOT> model;
    vf::Ctx& ctx;
    bool c07;
    bool boundary = false, interesting07 = false;
    bool any_fault = false; // an injected fault left unspecified (possibly moved-out) contents behind
    std::string err;

    Runner(vf::Ctx& c, bool is07) : ctx(c), c07(is07)
    {
    }

    bool fail(const std::string& m)
    {
        if (err.empty())
            err = m;
        return false;
    }

    static std::string vec_str(const std::vector<int>& v)
    {
        std::string r = "[";
        for (std::size_t i = 0; i < v.size(); ++i)
            r += (i ? "," : "") + std::to_string(v[i]);
        return r + "]";
    }

    std::vector<int> contents(const FV& f)
    {
        std::vector<int> r;
        for (std::size_t i = 0; i < f.size(); ++i)
            r.push_back(f[i].value);
        return r;
    }

    void resync(int s)
    {
        if (!slot[s])
        {
            model[s] = Model();
            return;
        }
        model[s].exists = true;
        model[s].cap = slot[s]->capacity();
        model[s].v = contents(*slot[s]);
    }

    // C06: invariants of one live container
    bool invariants(int s, const char* when, bool after_fault = false)
    {
        FV& f = *slot[s];
        std::string where = std::string(" (slot ") + std::to_string(s) + ", " + when + ")";
        if (f.size() > f.capacity())
            return fail("size() " + std::to_string(f.size()) + " exceeds capacity() " +
                        std::to_string(f.capacity()) + where);
        if (f.empty() != (f.size() == 0))
            return fail("empty() disagrees with size()" + where);
        for (std::size_t i = 0; i < f.size(); ++i)
        {
            const T& e = f[i];
            if (e.origin != tr::CALLER)
                return fail("visible element " + std::to_string(i) +
                            " was never put there by the caller (default-constructed slot exposed)" +
                            where);
            // after an element operation threw half way the contents are unspecified
            // (an element may have been moved out already); accounting still holds
            if (e.moved_from && !after_fault && !any_fault)
                return fail("visible element " + std::to_string(i) + " is a moved-from object" + where);
        }
        if (f.end() - f.begin() != static_cast<std::ptrdiff_t>(f.size()))
            return fail("end()-begin() != size()" + where);
        return true;
    }

    // C07: full observation against the reference sequence
    bool observe(int s, const char* when)
    {
        FV& f = *slot[s];
        const FV& cf = f;
        const std::vector<int>& m = model[s].v;
        std::string where = std::string(" (slot ") + std::to_string(s) + ", after " + when +
                            "; reference " + vec_str(m) + ", container " + vec_str(contents(f)) + ")";
        if (f.size() != m.size())
            return fail("size() is " + std::to_string(f.size()) + ", reference has " +
                        std::to_string(m.size()) + where);
        if (f.empty() != m.empty())
            return fail("empty() wrong" + where);
        if (f.capacity() != model[s].cap)
            return fail("capacity() is " + std::to_string(f.capacity()) + ", expected " +
                        std::to_string(model[s].cap) + where);
        for (std::size_t i = 0; i < m.size(); ++i)
        {
            if (f[i].value != m[i] || cf[i].value != m[i])
                return fail("operator[](" + std::to_string(i) + ") differs" + where);
            if (f.at(i).value != m[i] || cf.at(i).value != m[i])
                return fail("at(" + std::to_string(i) + ") differs" + where);
            if (f.data()[i].value != m[i] || cf.data()[i].value != m[i])
                return fail("data()[" + std::to_string(i) + "] differs" + where);
        }
        if (!m.empty())
        {
            if (f.front().value != m.front() || cf.front().value != m.front())
                return fail("front() differs" + where);
            if (f.back().value != m.back() || cf.back().value != m.back())
                return fail("back() differs" + where);
        }
        std::vector<int> fw, cfw, ccfw;
        for (auto it = f.begin(); it != f.end(); ++it)
            fw.push_back(it->value);
        for (auto it = cf.begin(); it != cf.end(); ++it)
            cfw.push_back(it->value);
        for (auto it = f.cbegin(); it != f.cend(); ++it)
            ccfw.push_back(it->value);
        if (fw != m || cfw != m || ccfw != m)
            return fail("forward iteration visits " + vec_str(fw) + where);
        std::vector<int> rev(m.rbegin(), m.rend()), rw, crw, ccrw;
        // reverse iteration is bounded by size+1 steps so that a broken
        // iterator pair shows up as a wrong sequence, not as a runaway loop
        std::size_t guard = 0;
        for (auto it = f.rbegin(); it != f.rend() && guard++ <= m.size(); ++it)
            rw.push_back(it->value);
        guard = 0;
        for (auto it = cf.rbegin(); it != cf.rend() && guard++ <= m.size(); ++it)
            crw.push_back(it->value);
        guard = 0;
        for (auto it = f.crbegin(); it != f.crend() && guard++ <= m.size(); ++it)
            ccrw.push_back(it->value);
        if (rw != rev || crw != rev || ccrw != rev)
            return fail("reverse iteration visits " + vec_str(rw) + ", expected " + vec_str(rev) + where);
        if (m.size() >= 2)
            interesting07 = true;
        return true;
    }

    T make(int v)
    {
        return T(v);
    }

    FV* build_list(const std::vector<int>& vals);
    void assign_list(FV& f, const std::vector<int>& vals);
    void insert_list(FV& f, std::size_t pos, const std::vector<int>& vals);

    template <std::size_t I>
    int do_get(FV& f)
    {
        return std::get<I>(f).value;
    }
    int get_static(FV& f, int i)
    {
        switch (i)
        {
        case 0:
            return do_get<0>(f);
        case 1:
            return do_get<1>(f);
        case 2:
            return do_get<2>(f);
        case 3:
            return do_get<3>(f);
        case 4:
            return do_get<4>(f);
        case 5:
            return do_get<5>(f);
        case 6:
            return do_get<6>(f);
        case 7:
            return do_get<7>(f);
        default:
            return do_get<8>(f);
        }
    }

    bool step(const Op& op0, std::size_t index);
    std::string run(const Case& c);
};

template <class T>
typename Runner<T>::FV* Runner<T>::build_list(const std::vector<int>& vals)
{
    if constexpr (T::copyable)
    {
        switch (vals.size())
        {
        case 0:
            return new FV(std::initializer_list<T>{});
        case 1:
            return new FV{ T(vals[0]) };
        case 2:
            return new FV{ T(vals[0]), T(vals[1]) };
        case 3:
            return new FV{ T(vals[0]), T(vals[1]), T(vals[2]) };
        default:
            return new FV{ T(vals[0]), T(vals[1]), T(vals[2]), T(vals[3]) };
        }
    }
    else
        return nullptr;
}

template <class T>
void Runner<T>::assign_list(FV& f, const std::vector<int>& vals)
{
    if constexpr (T::copyable)
    {
        switch (vals.size())
        {
        case 0:
            f = std::initializer_list<T>{};
            break;
        case 1:
            f = { T(vals[0]) };
            break;
        case 2:
            f = { T(vals[0]), T(vals[1]) };
            break;
        case 3:
            f = { T(vals[0]), T(vals[1]), T(vals[2]) };
            break;
        default:
            f = { T(vals[0]), T(vals[1]), T(vals[2]), T(vals[3]) };
        }
    }
}

template <class T>
void Runner<T>::insert_list(FV& f, std::size_t pos, const std::vector<int>& vals)
{
    if constexpr (T::copyable)
    {
        std::vector<T> tmp;
        for (int v : vals)
            tmp.emplace_back(v);
        std::initializer_list<T> il0 = {};
        switch (tmp.size())
        {
        case 0:
            f.insert(f.begin() + pos, il0);
            break;
        case 1:
        {
            std::initializer_list<T> il = { tmp[0] };
            f.insert(f.begin() + pos, il);
            break;
        }
        case 2:
        {
            std::initializer_list<T> il = { tmp[0], tmp[1] };
            f.insert(f.begin() + pos, il);
            break;
        }
        case 3:
        {
            std::initializer_list<T> il = { tmp[0], tmp[1], tmp[2] };
            f.insert(f.begin() + pos, il);
            break;
        }
        default:
        {
            std::initializer_list<T> il = { tmp[0], tmp[1], tmp[2], tmp[3] };
            f.insert(f.begin() + pos, il);
        }
        }
    }
}

template <class T>
bool Runner<T>::step(const Op& op0, std::size_t index)
{
    Op op = op0;
    const int a = ((op.a % NSLOT) + NSLOT) % NSLOT;
    int code = op.code;
    // operations that need a copyable element fall back to their move spelling
    if (!T::copyable)
    {
        if (code == INSERT_CREF || code == PUSH_BACK_CREF)
            code = INSERT_RVAL;
        else if (code == COPY_CONSTRUCT)
            code = MOVE_CONSTRUCT;
        else if (code == COPY_ASSIGN)
            code = MOVE_ASSIGN;
        else if (code == CONSTRUCT_LIST || code == CONSTRUCT_ITER)
            code = CONSTRUCT;
        else if (code == LIST_ASSIGN || code == PUSH_BACK_RANGE || code == INSERT_RANGE ||
                 code == INSERT_LIST)
            code = EMPLACE_BACK;
        if (op.vals.empty())
            op.vals.push_back(1);
    }
    if (op.vals.empty() && (code == EMPLACE_BACK || code == INSERT_CREF || code == INSERT_RVAL ||
                            code == PUSH_BACK_CREF || code == EMPLACE_POS || code == WRITE))
        op.vals.push_back(1);
    const std::string when = std::string("step ") + std::to_string(index) + " " + code_name(code);
    ctx.tag(std::string("op:") + code_name(code));

    const bool needs_target = !(code == CONSTRUCT || code == CONSTRUCT_ITER || code == CONSTRUCT_LIST ||
                                code == COPY_CONSTRUCT || code == MOVE_CONSTRUCT);
    if (needs_target && !slot[a])
    {
        ctx.tag("op:skipped-no-object");
        return true;
    }
    const int b_slot = ((op.b % NSLOT) + NSLOT) % NSLOT;
    if ((code == COPY_CONSTRUCT || code == MOVE_CONSTRUCT || code == COPY_ASSIGN ||
         code == MOVE_ASSIGN) &&
        (!slot[b_slot] || (b_slot == a && (code == COPY_CONSTRUCT || code == MOVE_CONSTRUCT))))
    {
        ctx.tag("op:skipped-no-object");
        return true;
    }
    if (c07 && model[a].exists && model[a].unspecified && needs_target)
        ctx.tag("c07:op-on-unspecified-state");

    Model before = model[a];
    std::vector<int> before_contents;
    std::size_t before_cap = 0;
    if (slot[a] && needs_target)
    {
        before_contents = contents(*slot[a]);
        before_cap = slot[a]->capacity();
    }

    // what the reference says
    bool expect_raise = false;  // the operation cannot be satisfied
    bool compare = true;        // c07: compare with the reference afterwards
    Model after = model[a];
    const std::size_t sz = slot[a] && needs_target ? slot[a]->size() : 0;
    const std::size_t cap = slot[a] && needs_target ? slot[a]->capacity() : 0;
    // positions/indices: c06 draws from [0, size+2] (bounded by capacity so that the
    // pointer stays inside the allocation), c07 from [0, size] / [0, size)
    std::size_t pos = static_cast<std::size_t>(op.b < 0 ? 0 : op.b);
    bool threw = false, fault = false;
    std::string what;
    int got_value = 0;
    bool have_value = false;

    tr::reg().countdown = op.fault > 0 ? op.fault : 0;
    const bool ctor_fault = op.fault < 0 && (code == EMPLACE_BACK || code == EMPLACE_POS);
    tr::reg().ctor_countdown = ctor_fault ? 1 : 0;
    if (op.fault > 0 || ctor_fault)
        ctx.tag("fault:armed");
    try
    {
        switch (code)
        {
        case CONSTRUCT:
        {
            std::size_t capn = capacity_of(op.b);
            slot[a].reset();
            model[a] = Model();
            slot[a].reset(new FV(capn));
            after = Model{ true, capn, {}, false };
            if (capn <= 1)
                boundary = true;
            break;
        }
        case CONSTRUCT_ITER:
        {
            std::size_t capn = capacity_of(op.b);
            if (c07 && op.vals.size() > capn)
                op.vals.resize(capn);
            expect_raise = op.vals.size() > capn;
            slot[a].reset();
            model[a] = Model();
            after = Model{ true, capn, op.vals, false };
            if constexpr (T::copyable)
            {
                std::vector<T> src;
                for (int v : op.vals)
                    src.emplace_back(v);
                slot[a].reset(new FV(capn, src));
            }
            break;
        }
        case CONSTRUCT_LIST:
        {
            if (op.vals.size() > 4)
                op.vals.resize(4);
            slot[a].reset();
            model[a] = Model();
            after = Model{ true, op.vals.size(), op.vals, false };
            slot[a].reset(build_list(op.vals));
            break;
        }
        case COPY_CONSTRUCT:
        {
            slot[a].reset();
            model[a] = Model();
            after = model[b_slot];
            if constexpr (T::copyable)
                slot[a].reset(new FV(static_cast<const FV&>(*slot[b_slot])));
            break;
        }
        case MOVE_CONSTRUCT:
        {
            slot[a].reset();
            model[a] = Model();
            after = model[b_slot];
            slot[a].reset(new FV(std::move(*slot[b_slot])));
            break;
        }
        case COPY_ASSIGN:
        {
            after = model[b_slot];
            if constexpr (T::copyable)
            {
                auto&& r = (*slot[a] = static_cast<const FV&>(*slot[b_slot]));
                if (&r != slot[a].get())
                    if (c07) fail("copy assignment does not return *this (" + when + ")");
            }
            break;
        }
        case MOVE_ASSIGN:
        {
            after = model[b_slot];
            if (a == b_slot)
            {
                // self move assignment: statement silent, only the invariants are kept
                compare = false;
                ctx.tag("op:self-move-assign");
            }
            auto&& r = (*slot[a] = std::move(*slot[b_slot]));
            if (&r != slot[a].get())
                if (c07) fail("move assignment does not return *this (" + when + ")");
            break;
        }
        case LIST_ASSIGN:
        {
            if (op.vals.size() > 4)
                op.vals.resize(4);
            after.v = op.vals;
            after.unspecified = false;
            assign_list(*slot[a], op.vals);
            // capacity after list assignment: only >= size is required
            after.cap = slot[a]->capacity();
            break;
        }
        case EMPLACE_BACK:
            expect_raise = sz >= cap;
            after.v.push_back(op.vals[0]);
            if (op.fault == 0 && op.vals[0] % 3 == 0)
                got_value = static_cast<int>(slot[a]->emplace_back(T(op.vals[0])));
            else
                got_value = static_cast<int>(slot[a]->emplace_back(op.vals[0]));
            if (!expect_raise && static_cast<std::size_t>(got_value) != sz)
                fail("emplace_back returned index " + std::to_string(got_value) + " (" + when + ")");
            break;
        case INSERT_CREF:
            expect_raise = sz >= cap;
            after.v.push_back(op.vals[0]);
            if constexpr (T::copyable)
            {
#ifndef VF_NO_INSERT_CREF
                const T val(op.vals[0]);
                slot[a]->insert(val);
#else
                slot[a]->insert(T(op.vals[0]));
#endif
            }
            break;
        case INSERT_RVAL:
            expect_raise = sz >= cap;
            after.v.push_back(op.vals[0]);
            slot[a]->insert(T(op.vals[0]));
            break;
        case PUSH_BACK_CREF:
            expect_raise = sz >= cap;
            after.v.push_back(op.vals[0]);
            if constexpr (T::copyable)
            {
                const T val(op.vals[0]);
                slot[a]->push_back(val);
            }
            break;
        case PUSH_BACK_RANGE:
        {
            if (c07 && op.vals.size() > cap - sz)
                op.vals.resize(cap - sz);
            expect_raise = op.vals.size() > cap - sz;
            after.v.insert(after.v.end(), op.vals.begin(), op.vals.end());
            if constexpr (T::copyable)
            {
                std::vector<T> src;
                for (int v : op.vals)
                    src.emplace_back(v);
                slot[a]->push_back(src.begin(), src.end());
            }
            break;
        }
        case INSERT_RANGE:
        case INSERT_LIST:
        {
            if (code == INSERT_LIST && op.vals.size() > 4)
                op.vals.resize(4);
            pos = std::min(pos % (sz + 3), cap);
            if (c07)
                pos = sz; // before end() the statement leaves overwrite/insert open
            if (pos > sz)
                expect_raise = true;
            else if (pos == sz)
            {
                if (c07 && op.vals.size() > cap - sz)
                    op.vals.resize(cap - sz);
                expect_raise = op.vals.size() > cap - sz;
                after.v.insert(after.v.end(), op.vals.begin(), op.vals.end());
            }
            else
            {
                // range insert before end(): overwrite or insert is not specified;
                // it must fit either way, otherwise it has to raise
                compare = false;
                ctx.tag("op:range-insert-before-end(unspecified)");
                expect_raise = pos + op.vals.size() > cap; // cannot fit under any reading
                if (!expect_raise && sz + op.vals.size() > cap)
                    expect_raise = false; // fits when overwriting, not when inserting: either
            }
            if constexpr (T::copyable)
            {
                if (code == INSERT_RANGE)
                {
                    std::vector<T> src;
                    for (int v : op.vals)
                        src.emplace_back(v);
                    slot[a]->insert(slot[a]->begin() + pos, src.begin(), src.end());
                }
                else
                    insert_list(*slot[a], pos, op.vals);
            }
            break;
        }
        case EMPLACE_POS:
        {
            pos = c07 ? pos % (sz + 1) : std::min(pos % (sz + 3), cap);
            expect_raise = sz >= cap || pos > sz;
            if (!expect_raise)
                after.v.insert(after.v.begin() + static_cast<long>(pos), op.vals[0]);
            if (pos < sz)
                interesting07 = true;
            // the element is built from constructor arguments, or handed over as a finished temporary
            if (op.fault == 0 && op.vals[0] % 3 == 0)
            {
                ctx.tag("op:emplace-from-temporary-element");
                slot[a]->emplace(slot[a]->begin() + pos, T(op.vals[0]));
            }
            else
                slot[a]->emplace(slot[a]->begin() + pos, op.vals[0]);
            break;
        }
        case ERASE:
        {
            if (c07)
            {
                if (sz == 0)
                {
                    ctx.tag("op:skipped-empty");
                    tr::reg().countdown = 0;
                    return true;
                }
                pos = pos % sz;
            }
            else
                pos = std::min(pos % (sz + 3), cap);
            expect_raise = pos >= sz;
            if (!expect_raise)
                after.v.erase(after.v.begin() + static_cast<long>(pos));
            if (!expect_raise && pos + 1 < sz)
                interesting07 = true;
            slot[a]->erase(slot[a]->begin() + pos);
            break;
        }
        case POP_BACK:
            if (c07 && sz == 0)
            {
                ctx.tag("op:skipped-empty");
                tr::reg().countdown = 0;
                return true;
            }
            expect_raise = sz == 0;
            if (!expect_raise)
                after.v.pop_back();
            slot[a]->pop_back();
            break;
        case AT:
        {
            if (c07)
            {
                if (sz == 0)
                {
                    tr::reg().countdown = 0;
                    return true;
                }
                pos = pos % sz;
            }
            else
                pos = pos % (sz + 3);
            if (!c07 && op.b >= 100)
            {
                // now and then an index with the top bit set (the result of a failed search, say)
                static const std::size_t extreme[] = { static_cast<std::size_t>(-1),
                                                       static_cast<std::size_t>(1) << 63,
                                                       (static_cast<std::size_t>(1) << 63) + 1,
                                                       static_cast<std::size_t>(-1) / 2 + 2 };
                pos = extreme[static_cast<std::size_t>(op.b) % 4];
                ctx.tag("at:extreme-index");
            }
            expect_raise = pos >= sz;
            const FV& cf = *slot[a];
            // the two overloads are checked independently: one raising must not hide the other
            bool raised_nc = false, raised_c = false;
            int v1 = 0, v2 = 0;
            try
            {
                v1 = slot[a]->at(pos).value;
            }
            catch (const std::exception&)
            {
                raised_nc = true;
            }
            try
            {
                v2 = cf.at(pos).value;
            }
            catch (const std::exception&)
            {
                raised_c = true;
            }
            if (raised_nc != raised_c)
                fail(std::string("at(") + std::to_string(pos) + ") with size " + std::to_string(sz) +
                     ": the non-const overload " + (raised_nc ? "raised" : "returned") + " but the const overload " +
                     (raised_c ? "raised" : "returned " + std::to_string(v2)) + " (" + when + ")");
            if (raised_nc)
                throw std::out_of_range("at raised");
            have_value = true;
            got_value = v1;
            if (v1 != v2)
                fail("at() const and non-const disagree (" + when + ")");
            break;
        }
        case GET:
        {
            if (c07)
            {
                if (sz == 0)
                {
                    tr::reg().countdown = 0;
                    return true;
                }
                pos = pos % std::min<std::size_t>(sz, 8);
            }
            else
                pos = pos % std::min<std::size_t>(sz + 3, 9);
            expect_raise = pos >= sz;
            got_value = get_static(*slot[a], static_cast<int>(pos));
            have_value = true;
            break;
        }
        case WRITE:
        {
            if (sz == 0)
            {
                tr::reg().countdown = 0;
                return true;
            }
            pos = pos % sz;
            after.v[pos] = op.vals[0];
            // writes go through the references handed out by operator[] / at()
            if constexpr (std::is_move_assignable<T>::value)
            {
                if (op.vals[0] % 2)
                    (*slot[a])[pos] = T(op.vals[0]);
                else
                    slot[a]->at(pos) = T(op.vals[0]);
            }
            else
            {
                const T fresh(op.vals[0]);
                if (op.vals[0] % 2)
                    (*slot[a])[pos] = fresh;
                else
                    slot[a]->at(pos) = fresh;
            }
            break;
        }
        case EMPLACE_POS_ALIAS:
        {
            if (!T::copyable || sz == 0)
            {
                tr::reg().countdown = 0;
                return true;
            }
            std::size_t k = static_cast<std::size_t>(op.vals.empty() ? 0 : op.vals[0]) % sz;
            pos = c07 ? pos % (sz + 1) : std::min(pos % (sz + 3), cap);
            expect_raise = sz >= cap || pos > sz;
            if (!expect_raise)
                after.v.insert(after.v.begin() + static_cast<long>(pos), before.v[k]);
            interesting07 = true;
            if constexpr (T::copyable)
                slot[a]->emplace(slot[a]->begin() + pos, (*slot[a])[k]);
            break;
        }
        case APPEND_ALIAS:
        {
            if (sz == 0)
            {
                tr::reg().countdown = 0;
                return true;
            }
            std::size_t k = static_cast<std::size_t>(op.vals.empty() ? 0 : op.vals[0]) % sz;
            if (op.b % 4 == 3 && sz >= cap)
            {
                // a full container is asked to append one of its own elements, handed over as an
                // rvalue: it raises, and the element stays what it was
                expect_raise = true;
                ctx.tag("op:append-moved-self-element-when-full");
                slot[a]->emplace_back(std::move((*slot[a])[k]));
                break;
            }
            if (!T::copyable)
            {
                tr::reg().countdown = 0;
                return true;
            }
            expect_raise = sz >= cap;
            after.v.push_back(before.v[k]);
            if constexpr (T::copyable)
            {
                switch (op.b % 3)
                {
                case 0:
                    slot[a]->emplace_back((*slot[a])[k]);
                    break;
                case 1:
#ifndef VF_NO_INSERT_CREF
                    slot[a]->insert(static_cast<const T&>((*slot[a])[k]));
                    break;
#endif
                default:
                    slot[a]->push_back((*slot[a])[k]);
                }
            }
            break;
        }
        case EMPLACE_BACK_NOARGS:
        {
            expect_raise = sz >= cap;
            after.v.push_back(0); // a value-initialised element
            tr::reg().default_is_caller = true;
            struct Reset
            {
                ~Reset()
                {
                    tr::reg().default_is_caller = false;
                }
            } reset_flag;
            slot[a]->emplace_back();
            break;
        }
        case APPEND_INPUT_RANGE:
        {
            if (!T::copyable)
            {
                tr::reg().countdown = 0;
                return true;
            }
            if (c07 && op.vals.size() > cap - sz)
                op.vals.resize(cap - sz);
            expect_raise = op.vals.size() > cap - sz;
            after.v.insert(after.v.end(), op.vals.begin(), op.vals.end());
            if constexpr (T::copyable)
            {
                std::vector<T> src;
                for (int v : op.vals)
                    src.emplace_back(v);
                OnePass<T> first{ std::make_shared<std::size_t>(0), &src }, last{ nullptr, &src };
                if (op.b % 2)
                    slot[a]->push_back(first, last);
                else
                    slot[a]->insert(slot[a]->end(), first, last);
            }
            break;
        }
        case DESTROY:
            slot[a].reset();
            after = Model();
            break;
        default:
            break;
        }
    }
    catch (const tr::Fault&)
    {
        fault = true;
    }
    catch (const std::exception& e)
    {
        threw = true;
        what = e.what();
    }
    tr::reg().countdown = 0;
    tr::reg().ctor_countdown = 0;

    if (!tr::reg().error.empty())
        return fail(tr::reg().error + " (" + when + ")");

    if (fault && ctor_fault)
    {
        // the new element could not even be constructed: a failed single-element operation
        // leaves the container unchanged
        ctx.tag("fault:element-constructor");
        boundary = true;
        if (slot[a] && (contents(*slot[a]) != before_contents || slot[a]->capacity() != before_cap))
            return fail(std::string(code_name(code)) + " changed the container although the element "
                        "constructor threw: " + vec_str(before_contents) + " -> " +
                        vec_str(contents(*slot[a])) + " (" + when + ")");
        for (int s = 0; s < NSLOT; ++s)
            if (slot[s] && !invariants(s, (when + ", after a throwing element constructor").c_str()))
                return false;
        return err.empty();
    }
    if (fault)
    {
        // an element operation threw in the middle: contents are unspecified,
        // the invariants are not
        ctx.tag("fault:thrown");
        boundary = true;
        any_fault = true;
        for (int s = 0; s < NSLOT; ++s)
        {
            if (slot[s] && !invariants(s, (when + ", after an injected element fault").c_str(), true))
                return false;
            resync(s);
            if (slot[s])
                model[s].unspecified = true;
        }
        return err.empty();
    }

    if (expect_raise)
    {
        boundary = true;
        ctx.tag(std::string("raise-expected:") + code_name(code));
        if (!threw)
            return fail(std::string(code_name(code)) + " cannot be satisfied (size " +
                        std::to_string(sz) + ", capacity " + std::to_string(cap) + ", position/index " +
                        std::to_string(pos) + ", " + std::to_string(op.vals.size()) +
                        " value(s)) but did not raise" +
                        (have_value ? "; it returned the element " + std::to_string(got_value) : "") +
                        " (" + when + ")");
        // a failed single-element operation leaves the container unchanged
        bool single = code == EMPLACE_BACK || code == INSERT_CREF || code == INSERT_RVAL ||
                      code == PUSH_BACK_CREF || code == EMPLACE_POS || code == ERASE ||
                      code == POP_BACK || code == AT || code == GET || code == EMPLACE_POS_ALIAS ||
                      code == APPEND_ALIAS || code == EMPLACE_BACK_NOARGS;
        if (code == CONSTRUCT_ITER)
        {
            // constructor raised: there is no object
            model[a] = Model();
            return err.empty();
        }
        if (single && slot[a])
        {
            if (contents(*slot[a]) != before_contents || slot[a]->capacity() != before_cap)
                return fail(std::string("failed ") + code_name(code) + " changed the container: " +
                            vec_str(before_contents) + " -> " + vec_str(contents(*slot[a])) + " (" +
                            when + ")");
        }
        else if (slot[a])
        {
            // multi-element operation that raised half way: contents unspecified
            if (!invariants(a, when.c_str()))
                return false;
            resync(a);
        }
        return err.empty();
    }
    if (threw)
        return fail(std::string(code_name(code)) + " raised (" + what + ") although it can be satisfied (size " +
                    std::to_string(sz) + ", capacity " + std::to_string(cap) + ", position/index " +
                    std::to_string(pos) + ") (" + when + ")");

    // ---- successful operation: update the reference
    bool src_moved = code == MOVE_CONSTRUCT || (code == MOVE_ASSIGN && a != b_slot);
    if (code == MOVE_CONSTRUCT || code == MOVE_ASSIGN || code == COPY_CONSTRUCT || code == COPY_ASSIGN)
    {
        interesting07 = true;
        after.exists = true;
    }
    model[a] = after;
    model[a].exists = static_cast<bool>(slot[a]);
    if (!compare && slot[a])
    {
        resync(a);
        model[a].unspecified = false;
    }
    if (src_moved)
    {
        // moved-from source: valid but unspecified
        boundary = true;
        ctx.tag("op:moved-from-source");
        if (!invariants(b_slot, (when + ", moved-from source").c_str()))
            return false;
        resync(b_slot);
        model[b_slot].unspecified = true;
    }
    if ((code == AT || code == GET) && have_value && got_value != before.v[pos] && c07)
        return fail(std::string(code_name(code)) + "(" + std::to_string(pos) + ") returned " +
                    std::to_string(got_value) + ", reference " + std::to_string(before.v[pos]) + " (" +
                    when + ")");

    for (int s = 0; s < NSLOT; ++s)
    {
        if (!slot[s])
            continue;
        if (!invariants(s, when.c_str()))
            return false;
        if (c07)
        {
            if (!observe(s, when.c_str()))
                return false;
        }
        else
        {
            // c06: capacity is fixed except for whole-container assignment
            bool whole = s == a && (code == COPY_ASSIGN || code == MOVE_ASSIGN || code == LIST_ASSIGN ||
                                    !needs_target);
            bool moved_src = src_moved && s == b_slot;
            if (!whole && !moved_src && model[s].exists && slot[s]->capacity() != model[s].cap)
                return fail("capacity() changed from " + std::to_string(model[s].cap) + " to " +
                            std::to_string(slot[s]->capacity()) + " without an assignment (slot " +
                            std::to_string(s) + ", " + when + ")");
            resync(s);
        }
    }
    if (c07 && code == COPY_CONSTRUCT && slot[a] && slot[b_slot] && !model[a].v.empty())
    {
        // independence: mutating the copy leaves the source alone (checked by the
        // per-step observation of every slot once a later step mutates either)
        ctx.tag("c07:copy-made");
    }
    return err.empty();
}

template <class T>
std::string Runner<T>::run(const Case& c)
{
    for (std::size_t i = 0; i < c.ops.size(); ++i)
        if (!step(c.ops[i], i))
            break;
    for (auto& s : slot)
        s.reset();
    if (err.empty() && !tr::reg().error.empty())
        err = tr::reg().error + " (at pool destruction)";
    if (err.empty() && !tr::reg().live.empty())
        err = std::to_string(tr::reg().live.size()) +
              " element object(s) still alive after every container was destroyed (leak)";
    return err;
}

std::string check(const Case& c, vf::Ctx& ctx)
{
    tr::reg().reset();
    bool is07 = c.prop == "c07";
    ctx.tag("prop:" + c.prop);
    ctx.tag(c.elem == 1 ? "elem:move-only" : c.elem == 2 ? "elem:copyable-noexcept" :
            c.elem == 3 ? "elem:copyable-not-move-assignable" : "elem:copyable");
    std::string msg;
    bool boundary, interesting;
#ifndef VF_NO_CATRACKED
    if (c.elem == 3)
    {
        Runner<tr::CaTracked> r(ctx, is07);
        msg = r.run(c);
        boundary = r.boundary;
        interesting = r.interesting07;
    }
    else
#endif
        if (c.elem == 2)
    {
        Runner<tr::NxTracked> r(ctx, is07);
        msg = r.run(c);
        boundary = r.boundary;
        interesting = r.interesting07;
    }
    else if (c.elem)
    {
        Runner<tr::MoTracked> r(ctx, is07);
        msg = r.run(c);
        boundary = r.boundary;
        interesting = r.interesting07;
    }
    else
    {
        Runner<tr::Tracked> r(ctx, is07);
        msg = r.run(c);
        boundary = r.boundary;
        interesting = r.interesting07;
    }
    if (is07 ? interesting : boundary)
        ctx.mark_nontrivial();
    if (boundary)
        ctx.tag("history:hits-boundary");
    if (interesting)
        ctx.tag("history:copy-move-or-middle-edit");
    tr::reg().reset();
    return msg;
}
} // namespace h

#include "common/vmain.hpp"
