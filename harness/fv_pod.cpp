// C06 / C07, plain-data half — fixed_vector over trivially copyable element types
// (int64, double, char, int32), where an implementation may take byte-copy short
// cuts: long tails (hundreds to thousands of elements behind the position),
// ranges whose source element type differs from the vector's, sources given as
// raw pointers. Reference: std::vector of the same element type, bounded by the
// capacity, with element-wise conversion of foreign sources.
//   prop c06: size <= capacity, every visible element is a live element of the
//             reference (nothing stale, nothing invented), operations that cannot
//             be satisfied raise, a failed single-element operation changes nothing
//   prop c07: the visible sequence equals the reference
#include "common/vcommon.hpp"

#include <nitro/lang/fixed_vector.hpp>

#include <array>
#include <list>

namespace h
{
enum Code
{
    PUSH = 0,     // emplace_back / insert(v) / push_back(v) by b % 3
    EMPLACE_POS,  // emplace(begin()+pos, v)
    ERASE,        // erase(begin()+pos)
    POP,          // pop_back
    APPEND_RANGE, // push_back(first,last) / insert(end(),first,last); b = source kind
    BULK_FILL,    // b values appended one by one (reaches the long tails quickly)
    REBUILD,      // a new vector (capacity, iterable of a foreign element type) replaces the old one
    CODE_COUNT
};

struct Op
{
    int code = 0, pos = 0, b = 0;
    std::vector<int> vals;
    template <class A>
    void io(A& x)
    {
        x("code", code);
        x("pos", pos);
        x("b", b);
        x("vals", vals);
    }
};

struct Case
{
    std::string prop = "c06";
    int etype = 0; // 0 int64, 1 double, 2 char, 3 int32
    int cap = 8;
    std::vector<Op> ops;
    template <class A>
    void io(A& x)
    {
        x("prop", prop);
        x("etype", etype);
        x("cap", cap);
        x("ops", ops);
    }
};

const char* property_ids()
{
    return "C06,C07";
}

static const char* ename(int t)
{
    static const char* n[] = { "int64", "double", "char", "int32" };
    return n[t & 3];
}
static const char* kname(int k)
{
    static const char* n[] = { "vector iterators",  "pointers",          "pointers to int",  "pointers to float",
                               "pointers to short", "pointers to int64", "list<int> iterators", "std::array<int,3>" };
    return n[k & 7];
}

std::string describe(const Case& c)
{
    std::ostringstream o;
    o << c.prop << " fixed_vector<" << ename(c.etype) << "> capacity " << c.cap << ":";
    for (auto& op : c.ops)
    {
        switch (op.code)
        {
        case PUSH:
            o << " append" << op.b % 3 << "(" << (op.vals.empty() ? 0 : op.vals[0]) << ")";
            break;
        case EMPLACE_POS:
            o << " emplace(@" << op.pos << "," << (op.vals.empty() ? 0 : op.vals[0]) << ")";
            break;
        case ERASE:
            o << " erase(@" << op.pos << ")";
            break;
        case POP:
            o << " pop";
            break;
        case APPEND_RANGE:
            o << " append_range(" << kname(op.b) << ", " << op.vals.size() << " values)";
            break;
        case BULK_FILL:
            o << " fill(" << op.b << ")";
            break;
        case REBUILD:
            o << " rebuild(from " << kname(op.b) << ", " << op.vals.size() << " values)";
            break;
        }
    }
    return o.str();
}

Case generate(vf::Src& src, const std::string& mode)
{
    Case c;
    c.prop = mode.find("07") != std::string::npos ? "c07" : "c06";
    c.etype = src.irange(0, 3);
    static const int caps[] = { 0, 1, 2, 5, 16, 64, 127, 128, 129, 130, 257, 300, 1025, 1100, 2100 };
    c.cap = caps[src.index(15)];
    int n = src.irange(1, 25);
    for (int i = 0; i < n; ++i)
    {
        if (src.skip())
            continue;
        Op op;
        op.code = static_cast<int>(src.weighted({ 18, 26, 12, 6, 16, 14, 8 }));
        op.b = src.irange(0, 7);
        // positions: mostly near the front (long tails), sometimes anywhere, sometimes beyond
        op.pos = src.coin(60) ? src.irange(0, 3) : src.irange(0, c.cap + 2);
        int k = op.code == APPEND_RANGE || op.code == REBUILD ? src.irange(0, 6) : 1;
        if (op.code == REBUILD)
            op.b = src.coin(70) ? 7 : op.b;
        for (int j = 0; j < k; ++j)
            op.vals.push_back(src.irange(1, 120));
        if (op.code == BULK_FILL)
            op.b = src.coin(50) ? c.cap - src.irange(0, 3) : src.irange(1, std::max(1, c.cap));
        c.ops.push_back(op);
    }
    return c;
}

template <class E>
static std::string show(const std::vector<E>& v)
{
    std::ostringstream o;
    o << "[";
    std::size_t n = v.size();
    for (std::size_t i = 0; i < n; ++i)
    {
        if (n > 24 && i == 10)
        {
            o << " ... (" << n << " elements)";
            i = n - 10;
        }
        o << (i ? " " : "") << static_cast<double>(v[i]);
    }
    o << "]";
    return o.str();
}

template <class E>
static std::vector<E> visible(nitro::lang::fixed_vector<E>& f)
{
    std::vector<E> v;
    for (std::size_t i = 0; i < f.size(); ++i)
        v.push_back(f[i]);
    return v;
}

template <class E, class S>
static std::vector<S> as(const std::vector<int>& vals)
{
    std::vector<S> v;
    for (int x : vals)
        v.push_back(static_cast<S>(x));
    return v;
}

// appends the values through the chosen kind of source; every source is a tight heap array, so
// that a read past its end is seen by the sanitizer
template <class E>
static void append_range(nitro::lang::fixed_vector<E>& f, int kind, const std::vector<int>& vals, bool via_insert)
{
    auto go = [&](auto first, auto last) {
        if (via_insert)
            f.insert(f.end(), first, last);
        else
            f.push_back(first, last);
    };
    switch (kind & 7)
    {
    case 0:
    {
        auto s = as<E, E>(vals);
        go(s.begin(), s.end());
        break;
    }
    case 1:
    {
        auto s = as<E, E>(vals);
        go(s.data(), s.data() + s.size());
        break;
    }
    case 2:
    {
        auto s = as<E, int>(vals);
        go(s.data(), s.data() + s.size());
        break;
    }
    case 3:
    {
        auto s = as<E, float>(vals);
        go(s.data(), s.data() + s.size());
        break;
    }
    case 4:
    {
        auto s = as<E, short>(vals);
        go(s.data(), s.data() + s.size());
        break;
    }
    case 5:
    {
        auto s = as<E, long long>(vals);
        go(s.data(), s.data() + s.size());
        break;
    }
    case 6:
    {
        std::list<int> s(vals.begin(), vals.end());
        go(s.begin(), s.end());
        break;
    }
    default:
    {
        // exactly three values from a std::array<int, 3> on the heap
        auto s = std::make_unique<std::array<int, 3>>();
        for (std::size_t i = 0; i < 3; ++i)
            (*s)[i] = i < vals.size() ? vals[i] : 7;
        go(s->begin(), s->end());
        break;
    }
    }
}

static std::vector<int> effective(int kind, const std::vector<int>& vals)
{
    if ((kind & 7) != 7)
        return vals;
    std::vector<int> v;
    for (std::size_t i = 0; i < 3; ++i)
        v.push_back(i < vals.size() ? vals[i] : 7);
    return v;
}

template <class E>
static std::string run(const Case& c, vf::Ctx& ctx)
{
    using FV = nitro::lang::fixed_vector<E>;
    const bool c07 = c.prop == "c07";
    std::size_t cap = static_cast<std::size_t>(std::max(0, std::min(c.cap, 4000)));
    auto f = std::make_unique<FV>(cap);
    std::vector<E> m;
    std::size_t step = 0;
    bool long_tail = false, foreign = false;
    for (const Op& op0 : c.ops)
    {
        Op op = op0;
        std::string when = " (step " + std::to_string(step) + " of " + describe(c) + ")";
        std::vector<E> before = m;
        bool expect_raise = false, raised = false, single = true, range_failed = false;
        E v = static_cast<E>(op.vals.empty() ? 1 : op.vals[0]);
        // one past the end of the storage is the farthest position that can be spelled
        std::size_t pos = std::min(static_cast<std::size_t>(std::max(0, op.pos)), cap);
        try
        {
            switch (op.code)
            {
            case PUSH:
                expect_raise = m.size() >= cap;
                if (!expect_raise)
                    m.push_back(v);
                if (op.b % 3 == 0)
                    f->emplace_back(v);
                else if (op.b % 3 == 1)
                    f->insert(v);
                else
                    f->push_back(v);
                break;
            case EMPLACE_POS:
                expect_raise = m.size() >= cap || pos > m.size();
                if (!expect_raise)
                {
                    if ((m.size() - pos) * sizeof(E) >= 1024)
                        long_tail = true;
                    m.insert(m.begin() + static_cast<std::ptrdiff_t>(pos), v);
                }
                f->emplace(f->begin() + pos, v);
                break;
            case ERASE:
                expect_raise = pos >= m.size();
                if (!expect_raise)
                {
                    if ((m.size() - pos) * sizeof(E) >= 1024)
                        long_tail = true;
                    m.erase(m.begin() + static_cast<std::ptrdiff_t>(pos));
                }
                f->erase(f->begin() + pos);
                break;
            case POP:
                expect_raise = m.empty();
                if (!expect_raise)
                    m.pop_back();
                f->pop_back();
                break;
            case APPEND_RANGE:
            {
                single = false;
                std::vector<int> vals = effective(op.b, op.vals);
                if (c07 && vals.size() > cap - m.size())
                {
                    if ((op.b & 7) == 7)
                        break; // the fixed-length source cannot be cut to fit
                    vals.resize(cap - m.size());
                }
                expect_raise = vals.size() > cap - m.size();
                if ((op.b & 7) >= 2 && !vals.empty())
                    foreign = true;
                // elements that fit are taken over before the raise (documented by the suite)
                for (std::size_t i = 0; i < vals.size() && m.size() < cap; ++i)
                    m.push_back(static_cast<E>(vals[i]));
                range_failed = expect_raise;
                append_range(*f, op.b, (op.b & 7) == 7 ? op.vals : vals, step % 2 == 0);
                break;
            }
            case BULK_FILL:
            {
                single = false;
                int n = std::max(0, std::min(op.b, 4000));
                for (int i = 0; i < n && m.size() < cap; ++i)
                {
                    E x = static_cast<E>(1 + (i * 7 + static_cast<int>(step)) % 100);
                    m.push_back(x);
                    f->emplace_back(x);
                }
                break;
            }
            case REBUILD:
            {
                single = false;
                std::vector<int> vals = effective(op.b, op.vals);
                if (vals.size() > cap)
                {
                    if ((op.b & 7) == 7)
                        break;
                    vals.resize(cap);
                }
                if ((op.b & 7) >= 2 && !vals.empty())
                    foreign = true;
                m.clear();
                for (int x : vals)
                    m.push_back(static_cast<E>(x));
                switch (op.b & 7)
                {
                case 2:
                    f = std::make_unique<FV>(cap, as<E, int>(vals));
                    break;
                case 3:
                    f = std::make_unique<FV>(cap, as<E, float>(vals));
                    break;
                case 4:
                    f = std::make_unique<FV>(cap, as<E, short>(vals));
                    break;
                case 5:
                    f = std::make_unique<FV>(cap, as<E, long long>(vals));
                    break;
                case 6:
                    f = std::make_unique<FV>(cap, std::list<int>(vals.begin(), vals.end()));
                    break;
                case 7:
                {
                    auto s = std::make_unique<std::array<int, 3>>();
                    for (std::size_t i = 0; i < 3; ++i)
                        (*s)[i] = vals[i];
                    f = std::make_unique<FV>(cap, *s);
                    break;
                }
                default:
                    f = std::make_unique<FV>(cap, as<E, E>(vals));
                }
                break;
            }
            default:
                break;
            }
        }
        catch (const std::exception&)
        {
            raised = true;
        }
        ctx.tag(std::string("pod:") + (op.code == PUSH ? "append" : op.code == EMPLACE_POS ? "emplace(pos)" :
                op.code == ERASE ? "erase" : op.code == POP ? "pop" : op.code == APPEND_RANGE ? "append-range" :
                op.code == BULK_FILL ? "fill" : "rebuild"));
        if (raised != expect_raise)
            return std::string(raised ? "an operation that can be satisfied raised" :
                                        "an operation that cannot be satisfied did not raise") + when;
        if (f->size() > f->capacity() || f->capacity() != cap)
            return "size " + std::to_string(f->size()) + " / capacity " + std::to_string(f->capacity()) +
                   " (constructed with " + std::to_string(cap) + ")" + when;
        std::vector<E> got = visible(*f);
        if (raised && single && got != before)
            return "a failed single-element operation changed the container: " + show(before) + " -> " + show(got) + when;
        (void)range_failed;
        if (c07)
        {
            if (got != m)
                return "the vector shows " + show(got) + ", the bounded list holds " + show(m) + when;
            // iteration agrees with indexing
            std::vector<E> it(f->begin(), f->end());
            if (it != got)
                return "forward iteration visits " + show(it) + ", indexing shows " + show(got) + when;
        }
        else
        {
            // every visible element is a live element of the reference: nothing stale, nothing invented
            if (got.size() != m.size())
                return "the vector shows " + std::to_string(got.size()) + " elements, the caller has put " +
                       std::to_string(m.size()) + " live elements there" + when;
            std::vector<E> a = got, b = m;
            std::sort(a.begin(), a.end());
            std::sort(b.begin(), b.end());
            if (a != b)
                return "the vector shows elements the caller did not put there (or that were removed): shows " +
                       show(got) + ", live elements are " + show(m) + when;
        }
        ++step;
    }
    if (long_tail)
    {
        ctx.tag("pod:tail-of-1KiB-or-more-shifted");
        ctx.mark_nontrivial();
    }
    if (foreign)
    {
        ctx.tag("pod:source-of-another-element-type");
        ctx.mark_nontrivial();
    }
    return "";
}

// emplace_back / emplace construct the element from the arguments the way T(args...) does: for element
// types with an initializer-list constructor that is not what T{args...} would give
static std::string constructor_arguments(const Case& c)
{
    int n = 2 + c.cap % 3, v = 5 + static_cast<int>(c.ops.size());
    nitro::lang::fixed_vector<std::string> fs(3);
    fs.emplace_back(static_cast<std::size_t>(n), 'x');
    fs.emplace(fs.begin(), static_cast<std::size_t>(n), 'y');
    if (fs.size() != 2 || fs[0] != std::string(static_cast<std::size_t>(n), 'y') ||
        fs[1] != std::string(static_cast<std::size_t>(n), 'x'))
        return "fixed_vector<std::string>: emplace(begin(), " + std::to_string(n) + ", 'y') and emplace_back(" +
               std::to_string(n) + ", 'x') give [" + (fs.size() > 0 ? vf::vis(fs[0]) : "") + ", " +
               (fs.size() > 1 ? vf::vis(fs[1]) : "") + "], the elements std::string(n, ch) were asked for";
    nitro::lang::fixed_vector<std::vector<int>> fv(3);
    fv.emplace_back(n, v);
    fv.emplace_back(n);
    if (fv[0] != std::vector<int>(static_cast<std::size_t>(n), v) || fv[1] != std::vector<int>(static_cast<std::size_t>(n)))
        return "fixed_vector<std::vector<int>>: emplace_back(" + std::to_string(n) + ", " + std::to_string(v) +
               ") appends a vector of " + std::to_string(fv[0].size()) + " elements, emplace_back(" + std::to_string(n) +
               ") one of " + std::to_string(fv[1].size()) + ": the element is not built as T(args...)";
    return "";
}

std::string check(const Case& c, vf::Ctx& ctx)
{
    ctx.tag(std::string("elem:") + ename(c.etype));
    ctx.tag("prop:pod");
    if (c.prop == "c07")
    {
        std::string m = constructor_arguments(c);
        if (!m.empty())
            return m;
    }
    switch (c.etype & 3)
    {
    case 0:
        return run<std::int64_t>(c, ctx);
    case 1:
        return run<double>(c, ctx);
    case 2:
        return run<char>(c, ctx);
    default:
        return run<std::int32_t>(c, ctx);
    }
}
} // namespace h

#include "common/vmain.hpp"
