// C15 — usage text lists everything once, in declaration order, on any stream.
// Oracle: validity predicates over the produced text (structure of the option
// section, word sequence of every description cell, synopsis mentions, line
// width) plus equality of the text across three kinds of target stream.
#include "common/vcommon.hpp"

#include <iomanip>

#include <nitro/options/parser.hpp>

#include <cstdlib>

namespace h
{
struct UEntry
{
    int kind = 0; // 0 option, 1 multi, 2 toggle
    std::string name, short_, metavar, desc, env;
    bool has_default = false;
    std::string def;
    std::vector<std::string> mdef;
    bool reversible = false;
    bool tdef = false;
    int tdefi = 0; // != 0: the default is given through the int overload (a count; also negative)
    int group = 0; // 0 default group, k = extra group k-1
    bool redeclare = false; // request the same entry a second time later on

    template <class A>
    void io(A& a)
    {
        a("kind", kind);
        a("name", name);
        a("short", short_);
        a("metavar", metavar);
        a("desc", desc);
        a("env", env);
        a("hasdef", has_default);
        a("def", def);
        a("mdef", mdef);
        a("rev", reversible);
        a("tdef", tdef);
        a("tdefi", tdefi);
        a("group", group);
        a("again", redeclare);
    }
};

struct UGroup
{
    std::string name, desc;
    template <class A>
    void io(A& a)
    {
        a("name", name);
        a("desc", desc);
    }
};

struct Case
{
    std::string app, about, default_group_name;
    std::vector<UGroup> groups;
    std::vector<UEntry> e;
    long long limit = 0;
    std::string posname;
    int prior = 0; // bytes already in the second target stream
    int moved = 0; // 0: as declared, 1: parser move-constructed before usage(), 2: move-assigned
    int columns = 0; // > 0: the environment variable COLUMNS is set to this while usage() runs
    int fmtstate = 0; // formatting state of the second target stream (bits: fill '0', fill '*', hex/showbase/
                      // uppercase, left, boolalpha, fixed with precision 2)
    bool early = false; // usage() is also called once before any entry is declared (the groups exist, empty)
    int before = 0; // things done with the parser before usage(): bit 0 a parse() of an empty command line,
                    // bit 1 a rejected short_name("xy") on every entry without a letter, bit 2 group("__default")

    template <class A>
    void io(A& a)
    {
        a("app", app);
        a("about", about);
        a("dgn", default_group_name);
        a("groups", groups);
        a("e", e);
        a("limit", limit);
        a("posname", posname);
        a("prior", prior);
        a("moved", moved);
        a("columns", columns);
        a("fmtstate", fmtstate);
        a("early", early);
        a("before", before);
    }
};

const char* property_ids()
{
    return "C15";
}

std::string describe(const Case& c)
{
    std::ostringstream o;
    o << "usage of app " << vf::vis(c.app) << " groups[";
    for (auto& g : c.groups)
        o << g.name << (g.desc.empty() ? "" : "(desc)") << ",";
    o << "] entries[";
    for (auto& e : c.e)
    {
        o << (e.kind == 0 ? "option " : e.kind == 1 ? "multi " : "toggle ") << e.name;
        if (!e.short_.empty())
            o << " -" << e.short_;
        if (!e.metavar.empty())
            o << " metavar=" << e.metavar;
        if (e.reversible)
            o << " reversible";
        if (!e.env.empty())
            o << " env=" << e.env;
        if (e.has_default)
            o << " default";
        o << " g" << e.group << " desc=" << vf::vis(e.desc, 50) << "; ";
    }
    o << "] positionals=" << c.limit << " prior=" << c.prior
      << (c.moved == 1 ? " parser-move-constructed" : c.moved == 2 ? " parser-move-assigned" : "");
    return o.str();
}

static std::string gen_word(vf::Src& src, int lo, int hi)
{
    static const std::string al = "abcdefghijklmnopqrstuvwxyz";
    return src.str(al, lo, hi);
}

Case generate(vf::Src& src, const std::string&)
{
    Case c;
    static const std::string nal = "abcdefghijklmnopqrstuvwxyz0123456789";
    c.app = src.coin(70) ? gen_word(src, 1, 8) : gen_word(src, 9, 30);
    c.about = src.coin(50) ? "" : "about " + gen_word(src, 1, 20);
    c.default_group_name = src.coin(70) ? "arguments" : gen_word(src, 3, 12);
    int ng = src.irange(0, 3);
    for (int i = 0; i < ng; ++i)
    {
        UGroup g;
        // names whose alphabetical order differs from the creation order (the index only
        // keeps them unique)
        g.name = gen_word(src, 1, 8) + "-" + std::to_string(i);
        g.desc = src.coin(50) ? "" : "description of group " + std::to_string(i);
        // a named group may carry the same heading as the default group
        if (i > 0 && src.coin(8))
        {
            bool taken = false; // (group names stay unique among the named groups)
            for (auto& other : c.groups)
                taken |= other.name == c.default_group_name;
            if (!taken)
                g.name = c.default_group_name;
        }
        c.groups.push_back(g);
    }
    int ne = static_cast<int>(src.weighted({ 5, 10, 15, 20, 20, 15, 10, 5 })) + (src.coin(20) ? 5 : 0);
    if (src.coin(5))
        ne = src.irange(26, 60); // more entries than letters in the alphabet
    std::string letters = "abcdefghijklmnopqrstuvwxyzABCDEFG0123456789";
    std::set<std::string> used;
    for (int i = 0; i < ne; ++i)
    {
        UEntry e;
        e.kind = src.irange(0, 2);
        do
        {
            int len = src.coin(80) ? src.irange(1, 10) : src.irange(11, 30);
            e.name = src.str(nal, 1, 1) + src.str(nal + "-", std::max(0, len - 1), std::max(0, len - 1));
        } while (used.count(e.name) || e.name.compare(0, 3, "no-") == 0);
        // now and then a name that equals an earlier one up to the case of a letter
        if (!c.e.empty() && src.coin(6))
        {
            std::string v = c.e[src.index(c.e.size())].name;
            for (auto& ch : v)
                if (ch >= 'a' && ch <= 'z')
                {
                    ch = static_cast<char>(ch - 'a' + 'A');
                    break;
                }
            if (!used.count(v))
                e.name = v;
        }
        used.insert(e.name);
        if (src.coin(60) && !letters.empty())
        {
            std::size_t li = src.index(letters.size());
            e.short_ = std::string(1, letters[li]);
            letters.erase(li, 1);
        }
        if (e.kind != 2 && src.coin(40))
            e.metavar = src.str("ABCDEFGHIJKLMNOPQRSTUVWXYZ", 1, 8);
        // description: 0-40 words, word length 1-60 so that unbreakable words occur
        int nw = src.coin(15) ? 0 : (src.coin(60) ? src.irange(1, 12) : src.irange(13, 40));
        for (int w = 0; w < nw; ++w)
        {
            if (w)
                e.desc += " ";
            e.desc += src.coin(92) ? gen_word(src, 1, 12) : gen_word(src, 38, 60);
        }
        if (src.coin(35))
            e.env = "NITRO_VERIF_U" + src.str("ABCDEFGHIJ_", 1, 10);
        e.has_default = src.coin(45);
        if (e.kind == 0)
            e.def = gen_word(src, 1, 10) + (src.coin(20) ? " " + gen_word(src, 1, 6) : "");
        else if (e.kind == 1)
        {
            int k = src.irange(0, 3);
            for (int j = 0; j < k; ++j)
                e.mdef.push_back(gen_word(src, 1, 8));
        }
        else
        {
            e.reversible = src.coin(50);
            e.tdef = src.coin(50);
            if (src.coin(30))
                e.tdefi = std::vector<int>{ -3, -1, 1, 2, 7 }[src.index(5)];
        }
        e.group = c.groups.empty() ? 0 : src.irange(0, static_cast<int>(c.groups.size()));
        e.redeclare = src.coin(15);
        c.e.push_back(e);
    }
    static const long long lims[] = { 0, 1, 3, -1 };
    c.limit = lims[src.index(4)];
    c.posname = src.coin(60) ? "args" : src.str("ABCDEFGHIJKLMNOP", 1, 8);
    c.prior = src.coin(50) ? src.irange(1, 200) : 0;
    c.moved = static_cast<int>(src.weighted({ 70, 15, 15 }));
    if (src.coin(12))
        c.columns = std::vector<int>{ 40, 79, 81, 100, 132, 238 }[src.index(6)];
    if (src.coin(30))
        c.fmtstate = src.irange(1, 63);
    c.early = src.coin(20);
    if (src.coin(30))
        c.before = src.irange(1, 7);
    return c;
}

// a target that cannot report its position (like std::cout): tellp() == -1
struct NonSeekBuf : std::streambuf
{
    std::string data;
    int_type overflow(int_type ch) override
    {
        if (ch != traits_type::eof())
            data.push_back(static_cast<char>(ch));
        return ch;
    }
    std::streamsize xsputn(const char* s, std::streamsize n) override
    {
        data.append(s, static_cast<std::size_t>(n));
        return n;
    }
};

static std::vector<std::string> words_of(const std::string& s)
{
    std::vector<std::string> w;
    std::istringstream in(s);
    std::string x;
    while (in >> x)
        w.push_back(x);
    return w;
}

static std::unique_ptr<nitro::options::parser> build(const Case& c)
{
    using namespace nitro::options;
    auto p = std::make_unique<parser>(c.app, c.about, c.default_group_name);
    for (auto& g : c.groups)
        p->group(g.name, g.desc);
    auto declare = [&](const UEntry& e) {
        nitro::options::group& grp =
            e.group == 0 ? p->group() : p->group(c.groups[static_cast<std::size_t>(e.group - 1)].name);
        if (e.kind == 0)
        {
            auto& o = grp.option(e.name, e.desc);
            if (!e.short_.empty())
                o.short_name(e.short_);
            if (!e.metavar.empty())
                o.metavar(e.metavar);
            if (!e.env.empty())
                o.env(e.env);
            if (e.has_default)
                o.default_value(e.def);
        }
        else if (e.kind == 1)
        {
            auto& o = grp.multi_option(e.name, e.desc);
            if (!e.short_.empty())
                o.short_name(e.short_);
            if (!e.metavar.empty())
                o.metavar(e.metavar);
            if (!e.env.empty())
                o.env(e.env);
            if (e.has_default)
                o.default_value(e.mdef);
        }
        else
        {
            auto& o = grp.toggle(e.name, e.desc);
            if (!e.short_.empty())
                o.short_name(e.short_);
            if (e.reversible)
                o.allow_reverse();
            if (!e.env.empty())
                o.env(e.env);
            if (e.has_default)
            {
                if (e.tdefi != 0)
                    o.default_value(e.tdefi);
                else
                    o.default_value(e.tdef);
            }
        }
    };
    if (c.early)
    {
        // the text of an earlier moment (no entries yet) goes elsewhere
        std::ostringstream scratch;
        p->usage(scratch);
    }
    for (auto& e : c.e)
        declare(e);
    // requesting an entry again must not list it twice
    for (auto& e : c.e)
        if (e.redeclare)
            declare(e);
    if (c.limit < 0)
        p->accept_positionals();
    else if (c.limit > 0)
        p->accept_positionals(static_cast<std::size_t>(c.limit));
    p->positional_metavar(c.posname);
    if (c.before & 2)
        for (auto& e : c.e)
            if (e.short_.empty())
            {
                // a short name of two characters is refused (developer error) - and leaves no trace
                nitro::options::group& grp =
                    e.group == 0 ? p->group() : p->group(c.groups[static_cast<std::size_t>(e.group - 1)].name);
                try
                {
                    if (e.kind == 0)
                        grp.option(e.name, e.desc).short_name("xy");
                    else if (e.kind == 1)
                        grp.multi_option(e.name, e.desc).short_name("xy");
                    else
                        grp.toggle(e.name, e.desc).short_name("xy");
                }
                catch (const nitro::options::parser_error&)
                {
                }
            }
    if (c.before & 4)
        (void)p->group("__default"); // the default group under its internal name
    if (c.before & 1)
    {
        // an ordinary run of the program before the text is asked for: parse() does not change what is declared
        try
        {
            const char* argv[] = { "prog" };
            (void)p->parse(1, argv);
        }
        catch (const std::exception&)
        {
        }
    }
    // the usage text belongs to the declaration, not to the object it was made on
    if (c.moved == 1)
        p = std::make_unique<parser>(std::move(*p));
    else if (c.moved == 2)
    {
        auto other = std::make_unique<parser>("other-app", "other about");
        other->group("zzz-own", "d").toggle("own-toggle", "d");
        *other = std::move(*p);
        p = std::move(other);
    }
    return p;
}

std::string check(const Case& c, vf::Ctx& ctx)
{
    auto p = build(c);
    // the text depends on the declaration only, not on the terminal the process happens to run in
    struct Columns
    {
        explicit Columns(int n)
        {
            if (n > 0)
                ::setenv("COLUMNS", std::to_string(n).c_str(), 1);
            else
                ::unsetenv("COLUMNS");
        }
        ~Columns()
        {
            ::unsetenv("COLUMNS");
        }
    } columns_guard(c.columns);
    if (c.columns)
        ctx.tag("env:COLUMNS-set");
    // ---- (1) same text on every target
    std::stringstream fresh;
    p->usage(fresh);
    const std::string text = fresh.str();

    std::stringstream used;
    std::string prior(static_cast<std::size_t>(c.prior), '#');
    if (c.prior > 3)
        prior[static_cast<std::size_t>(c.prior) / 2] = '\n';
    used << prior;
    if (c.fmtstate)
    {
        // whatever the caller did to the stream before (zero-padded numbers, hex dumps, ...)
        ctx.tag("target:formatting-state");
        if (c.fmtstate & 1)
            used.fill('0');
        if (c.fmtstate & 2)
            used.fill('*');
        if (c.fmtstate & 4)
            used << std::hex << std::showbase << std::uppercase;
        if (c.fmtstate & 8)
            used << std::left;
        if (c.fmtstate & 16)
            used << std::boolalpha;
        if (c.fmtstate & 32)
            used << std::fixed << std::setprecision(2);
    }
    if (c.early)
        ctx.tag("usage:also-called-before-the-entries-were-declared");
    if (c.before)
        ctx.tag("parser:used-before-usage");
    p->usage(used);
    std::string text2 = used.str().substr(prior.size());

    NonSeekBuf nb;
    std::ostream ns(&nb);
    p->usage(ns);

    if (c.prior)
        ctx.tag("target:prior-content");
    if (c.moved)
        ctx.tag("parser:moved-before-usage");
    std::size_t ngroups_used = 0;
    {
        std::set<int> gs;
        for (auto& e : c.e)
            gs.insert(e.group);
        ngroups_used = gs.size();
    }
    bool wraps = false;
    for (auto& e : c.e)
        if (e.desc.size() > 40)
            wraps = true;
    if ((ngroups_used >= 2 || c.e.size() >= 4) && wraps)
        ctx.mark_nontrivial();
    if (wraps)
        ctx.tag("desc:wraps");
    if (ngroups_used >= 2)
        ctx.tag("groups>=2");

    auto first_diff = [](const std::string& a, const std::string& b) {
        std::size_t i = 0;
        while (i < a.size() && i < b.size() && a[i] == b[i])
            ++i;
        return i;
    };
    if (text2 != text)
    {
        std::size_t d = first_diff(text, text2);
        return "usage text differs when the stream already holds " + std::to_string(c.prior) +
               " bytes" + (c.fmtstate ? " and carries formatting state " + std::to_string(c.fmtstate) : std::string()) +
               "; first difference at offset " + std::to_string(d) + ": fresh " +
               vf::vis(text.substr(d > 20 ? d - 20 : 0, 70)) + " vs " +
               vf::vis(text2.substr(d > 20 ? d - 20 : 0, 70));
    }
    if (nb.data != text)
    {
        std::size_t d = first_diff(text, nb.data);
        return "usage text differs on a non-seekable stream (tellp() == -1); first difference at offset " +
               std::to_string(d) + ": fresh " + vf::vis(text.substr(d > 20 ? d - 20 : 0, 70)) + " vs " +
               vf::vis(nb.data.substr(d > 20 ? d - 20 : 0, 70));
    }

    // ---- split into synopsis / about / option section
    std::vector<std::string> lines;
    {
        std::size_t start = 0;
        while (start <= text.size())
        {
            auto nl = text.find('\n', start);
            if (nl == std::string::npos)
            {
                if (start < text.size())
                    lines.push_back(text.substr(start));
                break;
            }
            lines.push_back(text.substr(start, nl - start));
            start = nl + 1;
        }
    }
    std::size_t li = 0;
    std::string syn;
    std::vector<std::string> syn_lines;
    while (li < lines.size() && !lines[li].empty())
    {
        syn += lines[li] + "\n";
        syn_lines.push_back(lines[li]);
        ++li;
    }
    if (syn.compare(0, 7 + c.app.size(), "usage: " + c.app) != 0)
        return "usage text does not start with 'usage: <app name>': " + vf::vis(syn, 100);
    if (li >= lines.size() || !lines[li].empty())
        return "no blank line after the synopsis";
    ++li;
    if (!c.about.empty())
    {
        if (li + 1 >= lines.size() || lines[li] != c.about || !lines[li + 1].empty())
            return "the about text is not printed after the synopsis";
        li += 2;
    }

    // ---- (4) synopsis mentions every declaration
    const std::size_t syn_avail = 80 - 8 - std::min<std::size_t>(c.app.size(), 72);
    std::vector<std::string> syn_words;
    std::string bundle;
    for (auto& e : c.e)
    {
        std::string mv = e.metavar.empty() ? "ARG" : e.metavar;
        if (e.kind == 2)
        {
            if (!e.short_.empty())
                bundle += e.short_;
            if (e.short_.empty() || e.reversible)
                syn_words.push_back(e.reversible ? "[--[no-]" + e.name + "]" : "[--" + e.name + "]");
        }
        else if (!e.short_.empty())
        {
            syn_words.push_back("[-" + e.short_ + " <" + mv + ">");
            syn_words.push_back("--" + e.name + " <" + mv + ">]");
        }
        else
            syn_words.push_back("[--" + e.name + " <" + mv + ">]");
    }
    if (!bundle.empty())
    {
        std::sort(bundle.begin(), bundle.end());
        syn_words.push_back("[-" + bundle + "]");
    }
    if (c.limit != 0)
    {
        syn_words.push_back("[" + c.posname);
        syn_words.push_back("...]");
    }
    for (auto& w : syn_words)
        if (syn.find(w) == std::string::npos)
            return "the synopsis does not mention " + vf::vis(w) + ": " + vf::vis(syn, 400);
    // ---- (5) width of synopsis lines
    // A line may exceed 80 columns only because of ONE unbreakable word: that word is the last
    // one on its line, it cannot fit the area at all, and the line without it is within bounds.
    for (auto& l : syn_lines)
        if (l.size() > 80)
        {
            bool forced = false;
            // the text column of a synopsis line starts behind "usage: <app> "
            std::string rest = l.size() > 8 + c.app.size() ? l.substr(8 + c.app.size()) : std::string();
            while (!rest.empty() && rest[0] == ' ')
                rest.erase(0, 1);
            for (auto& w : syn_words)
                if (w.size() + 1 > syn_avail && rest == w)
                    forced = true;
            if (c.app.size() + 8 >= 80)
                forced = true;
            if (!forced)
                return "synopsis line of " + std::to_string(l.size()) +
                       " columns whose text column holds more than one single unbreakable word: " +
                       vf::vis(l, 260);
            ctx.tag("width:forced-long-line");
        }

    // ---- (2)+(3) option section: groups in creation order, entries in declaration order,
    // each exactly once, description cells word by word
    auto group_entries = [&](int g) {
        std::vector<const UEntry*> v;
        for (auto& e : c.e)
            if (e.group == g)
                v.push_back(&e);
        return v;
    };
    const std::string pad40(40, ' ');
    for (int g = 0; g <= static_cast<int>(c.groups.size()); ++g)
    {
        auto entries = group_entries(g);
        if (entries.empty())
            continue; // empty groups are absent
        std::string gname = g == 0 ? c.default_group_name : c.groups[static_cast<std::size_t>(g - 1)].name;
        std::string gdesc = g == 0 ? "" : c.groups[static_cast<std::size_t>(g - 1)].desc;
        if (li + 1 >= lines.size() || !lines[li].empty() || lines[li + 1] != gname + ":")
            return "expected the heading of group '" + gname + "' at line " + std::to_string(li + 1) +
                   ", found " + vf::vis(li + 1 < lines.size() ? lines[li + 1] : std::string("<end>"), 100) +
                   " (groups must appear in creation order, entries exactly once)";
        li += 2;
        if (!gdesc.empty())
        {
            if (li + 2 >= lines.size() || !lines[li].empty() || lines[li + 1] != gdesc ||
                !lines[li + 2].empty())
                return "group description of '" + gname + "' is not printed under its heading";
            li += 3;
        }
        for (const UEntry* e : entries)
        {
            std::string head = "  ";
            if (!e->short_.empty())
                head += "-" + e->short_ + ", ";
            head += e->kind == 2 && e->reversible ? "--[no-]" + e->name : "--" + e->name;
            if (e->kind != 2)
                head += " " + (e->metavar.empty() ? std::string("ARG") : e->metavar);
            if (li >= lines.size() || lines[li].compare(0, head.size(), head) != 0 ||
                (lines[li].size() > head.size() && lines[li][head.size()] != ' '))
                return "expected the entry " + vf::vis(head) + " (declaration order, exactly once) at line " +
                       std::to_string(li + 1) + ", found " +
                       vf::vis(li < lines.size() ? lines[li] : std::string("<end>"), 100);
            std::string cell = lines[li].substr(head.size());
            std::vector<std::string> cell_lines = { lines[li] };
            ++li;
            while (li < lines.size() && lines[li].compare(0, 40, pad40) == 0)
            {
                cell += " " + lines[li];
                cell_lines.push_back(lines[li]);
                ++li;
            }
            std::vector<std::string> want = words_of(e->desc);
            if (!e->env.empty())
                for (auto& w : words_of("Can be set using the environment variable '" + e->env + "'."))
                    want.push_back(w);
            if (e->kind == 0 && e->has_default)
                for (auto& w : words_of("(default: " + e->def + ")"))
                    want.push_back(w);
            if (e->kind == 1 && e->has_default)
            {
                std::string j;
                for (auto& d : e->mdef)
                    j += (j.empty() ? "" : ", ") + d;
                for (auto& w : words_of("(default: " + j + ")"))
                    want.push_back(w);
            }
            if (e->kind == 2 && e->reversible)
                for (auto& w : words_of(std::string("(default: ") +
                                        (e->has_default && (e->tdefi != 0 || e->tdef) ? "enabled" : "disabled") + ")"))
                    want.push_back(w);
            std::vector<std::string> got = words_of(cell);
            if (got != want)
            {
                std::string g1, w1;
                for (auto& x : got)
                    g1 += x + " ";
                for (auto& x : want)
                    w1 += x + " ";
                return "description cell of --" + e->name + " reads " + vf::vis(g1, 300) + ", expected " +
                       vf::vis(w1, 300);
            }
            for (auto& l : cell_lines)
                if (l.size() > 80)
                {
                    bool forced = false;
                    // the text column starts at column 40
                    std::string rest = l.size() > 40 ? l.substr(40) : std::string();
                    while (!rest.empty() && rest[0] == ' ')
                        rest.erase(0, 1);
                    for (auto& w : want)
                        if (w.size() + 1 > 40 && rest == w)
                            forced = true;
                    if (!forced)
                        return "option section line of " + std::to_string(l.size()) +
                               " columns whose text column holds more than one single unbreakable word: " +
                               vf::vis(l, 260);
                    ctx.tag("width:forced-long-line");
                }
        }
    }
    while (li < lines.size())
    {
        if (!lines[li].empty())
            return "unexpected extra text in the option section (an entry listed twice?): " +
                   vf::vis(lines[li], 120);
        ++li;
    }
    return "";
}
} // namespace h

#include "common/vmain.hpp"
