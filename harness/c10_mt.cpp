// C10, concurrent half — a statement the runtime filter rejects evaluates nothing
// and emits nothing also when other threads are logging accepted statements at the
// same moment. Generated workloads: 2-8 threads issue statements of seeded
// severities on both sides of one runtime threshold; every statement streams a
// lazily evaluated callable that counts its calls, the sink counts what arrives.
// The decision of the real filter is taken single-threaded beforehand (C10 is
// stated relative to it). The same workloads run under -fsanitize=thread.
#include "common/vcommon.hpp"

#include <nitro/log/attribute/message.hpp>
#include <nitro/log/attribute/severity.hpp>
#include <nitro/log/attribute/tag.hpp>
#include <nitro/log/attribute/timestamp.hpp>
#include <nitro/log/filter/severity_filter.hpp>
#include <nitro/log/log.hpp>

#include <atomic>
#include <sched.h>
#include <thread>

namespace h
{
struct Case
{
    int threads = 2;
    int per_thread = 200;
    int threshold = 2; // runtime threshold (severity_level as int)
    int sev_seed = 1;
    int tagged = 0; // 1: statements carry a tag
    int named = 0;  // 1: every 3rd statement is a named stream object filled over two statements
    template <class A>
    void io(A& a)
    {
        a("threads", threads);
        a("per_thread", per_thread);
        a("threshold", threshold);
        a("sev_seed", sev_seed);
        a("tagged", tagged);
        a("named", named);
    }
};

const char* property_ids()
{
    return "C10";
}

std::string describe(const Case& c)
{
    std::ostringstream o;
    o << c.threads << " threads x " << c.per_thread << " statements of seeded severities (seed " << c.sev_seed
      << ") around the runtime threshold " << c.threshold << (c.tagged ? ", tagged" : "")
      << (c.named ? ", every 3rd as a named stream object" : "");
    return o.str();
}

Case generate(vf::Src& src, const std::string&)
{
    Case c;
    c.threads = src.irange(2, 8);
    c.per_thread = src.irange(100, 3000);
    c.threshold = src.irange(1, 5);
    c.sev_seed = src.irange(1, 1000000);
    c.tagged = src.coin(40) ? 1 : 0;
    c.named = src.coin(40) ? 1 : 0;
    return c;
}

static const int MAXT = 8, MAXN = 3000;
static std::atomic<int> calls[MAXT][MAXN];
static std::atomic<int> emitted[MAXT][MAXN];
static std::atomic<int> garbled{ 0 };

using Record =
    nitro::log::record<nitro::log::tag_attribute, nitro::log::message_attribute, nitro::log::severity_attribute,
                       nitro::log::timestamp_attribute>;
template <typename R>
struct Fmt
{
    std::string format(R& r)
    {
        return r.message();
    }
};
struct CountingSink
{
    void sink(nitro::log::severity_level, const std::string& m)
    {
        int t = -1, s = -1;
        if (std::sscanf(m.c_str(), "t%d#%d.", &t, &s) == 2 && t >= 0 && t < MAXT && s >= 0 && s < MAXN)
            emitted[t][s].fetch_add(1, std::memory_order_relaxed);
        else
            garbled.fetch_add(1);
    }
};
template <typename R>
using Filter = nitro::log::filter::severity_filter<R, 4242>;
using L = nitro::log::logger<Record, Fmt, CountingSink, Filter>;

static int sev_of(const Case& c, int t, int s)
{
    std::uint64_t x = static_cast<std::uint64_t>(c.sev_seed) * 1000003u + static_cast<std::uint64_t>(t) * 7919u +
                      static_cast<std::uint64_t>(s) * 104729u;
    x ^= x >> 13;
    x *= 0x9E3779B97F4A7C15ull;
    x ^= x >> 29;
    // mostly the two extremes, so that rejected and accepted statements meet all the time
    int r = static_cast<int>(x % 10);
    return r < 4 ? 0 : r < 8 ? 5 : static_cast<int>((x >> 8) % 6);
}

template <class Stream>
static void fill(Stream&& st, int t, int s, bool named)
{
    auto lazy = [t, s]() -> std::string {
        calls[t][s].fetch_add(1, std::memory_order_relaxed);
        return ".";
    };
    if (named)
    {
        auto log = std::move(st);
        log << "t" << t << "#" << s;
        log << lazy;
    }
    else
        std::move(st) << "t" << t << "#" << s << lazy;
}

std::string check(const Case& c0, vf::Ctx& ctx)
{
    // a deadlock shows as no progress at all: blocked threads use no CPU time
    vf::arm_wall_watchdog(75);
    Case c = c0;
    c.threads = std::max(2, std::min(c.threads, MAXT));
    c.per_thread = std::max(1, std::min(c.per_thread, MAXN));
    c.threshold = std::max(0, std::min(c.threshold, 5));
    for (int t = 0; t < MAXT; ++t)
        for (int s = 0; s < c.per_thread; ++s)
        {
            calls[t][s] = 0;
            emitted[t][s] = 0;
        }
    garbled = 0;
    Filter<Record>::set_severity(static_cast<nitro::log::severity_level>(c.threshold));
    // what the real runtime filter says about a record of each severity, asked while nothing else runs
    bool accepts[6];
    for (int sv = 0; sv < 6; ++sv)
    {
        Record r;
        r.severity() = static_cast<nitro::log::severity_level>(sv);
        accepts[sv] = L::will_log(r);
    }
    std::atomic<int> go{ 0 };
    std::vector<std::thread> th;
    for (int t = 0; t < c.threads; ++t)
        th.emplace_back([&, t] {
            while (!go.load(std::memory_order_acquire))
            {
            }
            for (int s = 0; s < c.per_thread; ++s)
            {
                bool named = c.named && s % 3 == 1;
                const char* tag = c.tagged ? (s % 2 ? "even" : "odd") : nullptr;
                switch (sev_of(c, t, s))
                {
                case 0:
                    fill(tag ? L::trace(tag) : L::trace(), t, s, named);
                    break;
                case 1:
                    fill(tag ? L::debug(tag) : L::debug(), t, s, named);
                    break;
                case 2:
                    fill(tag ? L::info(tag) : L::info(), t, s, named);
                    break;
                case 3:
                    fill(tag ? L::warn(tag) : L::warn(), t, s, named);
                    break;
                case 4:
                    fill(tag ? L::error(tag) : L::error(), t, s, named);
                    break;
                default:
                    fill(tag ? L::fatal(tag) : L::fatal(), t, s, named);
                }
            }
        });
    go.store(1, std::memory_order_release);
    for (auto& t : th)
        t.join();

    long rejected = 0, accepted = 0;
    std::string msg;
    for (int t = 0; t < c.threads && msg.empty(); ++t)
        for (int s = 0; s < c.per_thread; ++s)
        {
            int sv = sev_of(c, t, s);
            int nc = calls[t][s].load(), ne = emitted[t][s].load();
            if (!accepts[sv])
            {
                ++rejected;
                if (nc != 0 || ne != 0)
                {
                    msg = "statement #" + std::to_string(s) + " of thread " + std::to_string(t) + " (severity " +
                          std::to_string(sv) + ", rejected by the runtime filter at threshold " +
                          std::to_string(c.threshold) + ") evaluated its callable " + std::to_string(nc) +
                          " time(s) and emitted " + std::to_string(ne) + " record(s) (" + describe(c) + ")";
                    break;
                }
            }
            else
            {
                ++accepted;
                if (nc != 1 || ne != 1)
                {
                    msg = "statement #" + std::to_string(s) + " of thread " + std::to_string(t) + " (severity " +
                          std::to_string(sv) + ", accepted by the runtime filter at threshold " +
                          std::to_string(c.threshold) + ") evaluated its callable " + std::to_string(nc) +
                          " time(s) and emitted " + std::to_string(ne) + " record(s), expected once each (" +
                          describe(c) + ")";
                    break;
                }
            }
        }
    ctx.add("mt:statements", static_cast<std::uint64_t>(rejected + accepted));
    ctx.add("mt:statements-rejected-at-run-time", static_cast<std::uint64_t>(rejected));
    ctx.tag("mt:workload");
    if (rejected > 0 && accepted > 0)
        ctx.mark_nontrivial();
    if (!msg.empty())
        return msg;
    if (garbled.load())
        return std::to_string(garbled.load()) + " records reached the sink with a message that is not the one "
               "of any statement (" + describe(c) + ")";
    return "";
}
} // namespace h

#include "common/vmain.hpp"
