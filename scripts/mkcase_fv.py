#!/usr/bin/env python3
"""writes hand-made fixed_vector regression cases (text form of harness/fv.cpp's Case)"""
import os
CODES = ["construct", "construct_iter", "construct_list", "copy_construct", "move_construct",
         "copy_assign", "move_assign", "list_assign", "emplace_back", "insert_cref", "insert_rval",
         "push_back_cref", "push_back_range", "insert_range", "insert_list", "emplace_pos", "erase",
         "pop_back", "at", "get", "write", "destroy"]


def hx(s):
    return "x" + s.encode().hex()


def case(prop, elem, ops, comment):
    out = [f"# hand-made regression case: {comment}", f"# mode={prop}", f"prop={hx(prop)}", f"elem={elem}",
           f"ops.n={len(ops)}"]
    for i, (code, a, b, vals) in enumerate(ops):
        out += [f"ops.{i}.code={CODES.index(code)}", f"ops.{i}.a={a}", f"ops.{i}.b={b}", f"ops.{i}.fault=0",
                f"ops.{i}.vals.n={len(vals)}"] + [f"ops.{i}.vals.{k}={v}" for k, v in enumerate(vals)]
    return "\n".join(out) + "\n"


V = os.path.dirname(os.path.dirname(os.path.abspath(__file__)))
W = {
 "C06/d5_at_size.case": case("c06", 0, [("construct", 0, 3, []), ("emplace_back", 0, 0, [5]), ("at", 0, 1, [1])],
                             "D5 at(size()) handed out the slot behind the last element"),
 "C06/d6_emplace_pos_beyond_end.case": case("c06", 0, [("construct", 0, 3, []), ("emplace_pos", 0, 1, [7])],
                             "D6 emplace(begin()+1) on an empty vector was accepted"),
 "C06/d6_emplace_pos_exposes_default_slot.case": case("c06", 0, [("construct", 0, 3, []), ("emplace_back", 0, 0, [1]), ("emplace_pos", 0, 0, [7])],
                             "D6 emplace(begin()) overwrote and grew size over an unfilled slot"),
 "C06/d7_use_of_moved_from.case": case("c06", 0, [("construct", 0, 2, []), ("emplace_back", 0, 0, [1]), ("move_construct", 1, 0, []), ("emplace_back", 0, 0, [2]), ("at", 0, 0, [1])],
                             "D7 moved-from vector kept size/capacity with null storage"),
 "C06/d17_std_get_out_of_range_terminates.case": case("c06", 0, [("construct", 0, 2, []), ("emplace_back", 0, 0, [1]), ("get", 0, 1, [1])],
                             "D17 std::get<1> on a one-element vector called std::terminate (noexcept)"),
 "C07/d6_emplace_pos_inserts_before.case": case("c07", 0, [("construct", 0, 4, []), ("emplace_back", 0, 0, [1]), ("emplace_back", 0, 0, [2]), ("emplace_pos", 0, 1, [9])],
                             "D6 positional emplace overwrote instead of inserting"),
 "C07/d7_move_construct_transfers.case": case("c07", 0, [("construct", 0, 3, []), ("emplace_back", 0, 0, [1]), ("emplace_back", 0, 0, [2]), ("move_construct", 1, 0, [])],
                             "D7 move constructor dropped the size"),
 "C07/d8_copy_assign.case": case("c07", 0, [("construct", 0, 2, []), ("emplace_back", 0, 0, [1]), ("construct", 1, 3, []), ("copy_assign", 1, 0, [])],
                             "D8 copy assignment left *this untouched"),
 "C07/d8_move_assign.case": case("c07", 0, [("construct", 0, 2, []), ("emplace_back", 0, 0, [1]), ("construct", 1, 3, []), ("move_assign", 1, 0, [])],
                             "D8 move assignment left *this untouched"),
 "C07/d8_list_assign.case": case("c07", 0, [("construct", 0, 2, []), ("list_assign", 0, 0, [4, 5])],
                             "D8 list assignment left *this untouched"),
 "C07/d9_reverse_iteration.case": case("c07", 0, [("construct", 0, 3, []), ("emplace_back", 0, 0, [1]), ("emplace_back", 0, 0, [2]), ("emplace_back", 0, 0, [3])],
                             "D9 rbegin/rend were forward pointers"),
 "C07/d10_insert_cref.case": case("c07", 0, [("construct", 0, 2, []), ("insert_cref", 0, 0, [1]), ("insert_cref", 0, 0, [2])],
                             "D10 insert(const T&) (did not compile before the fix)"),
}
for rel, text in W.items():
    p = os.path.join(V, "replays", rel)
    os.makedirs(os.path.dirname(p), exist_ok=True)
    open(p, "w").write(text)
    print(p)
