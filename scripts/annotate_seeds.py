#!/usr/bin/env python3
"""Adds the hand-written summary / needs_to_manifest / history fields to seeded/*/meta.json
(eval_seed.py rewrites the measured fields on every evaluation; these stay)."""
import json
import os

V = os.path.dirname(os.path.dirname(os.path.abspath(__file__)))

A = {
 "C01-1": ("bundle letters are checked against a cached set of ALL short names (options too): -vo counts v and silently drops o",
           "a declaration with a toggle letter and an option/multi-option letter, and a bundle of >= 2 letters mixing the two kinds", ""),
 "C01-2": ("long names are matched by prefix in base::matches: --verbosex is accepted as --verbose",
           "an undeclared long name that has a declared name as a proper prefix", ""),
 "C02-1": ("user_input::value() returns the part after '=' also for pure value tokens: '--define key=val' yields 'val'",
           "a value given as the next argument (--name value / -s value) that contains '='", ""),
 "C02-2": ("toggle::prepare() resets the counter to the default instead of 0: -v counts 2 for default_value(true)",
           "a toggle with a non-zero default that is also given explicitly, and a check of the exact count", ""),
 "C03-1": ("toggle::check() consults the environment whenever the count is 0: --no-x is overridden by a truthy variable",
           "a toggle with allow_reverse() and env(), --no-<name> on the command line, variable set to a truthy or unparsable word",
           "missed by the first C03 generator (negative spelling never generated, C11 caught it); C03 now spells reversible toggles as --no-name as well"),
 "C03-2": ("multi_option::check() moves the default list out instead of copying it: the second default-fallback parse yields an empty list",
           "a multi-option with a non-empty default and at least two parse() calls on one parser falling back to the default",
           "missed by the first C03 check (fresh parser per case, C14 caught it); the options modes now run warm-up parses on the same object"),
 "C04-1": ("the positional limit is not enforced behind -- or in greedy mode",
           "a finite limit (also 0) and surplus positionals behind -- or behind the first positional in greedy mode", ""),
 "C04-2": ("bundle letter check uses the cached set of all short names (two cooperating sites)",
           "a bundle with a toggle letter and the letter of an option that needs no command-line value (default/optional/env)", ""),
 "C05-1": ("a per-thread record cache hands out records that still carry the tag of an earlier statement",
           "a tagged statement (delivered or filtered out) followed on the same thread by an untagged delivered one, record with tag attribute", ""),
 "C05-2": ("the runtime threshold storage is shared by all severity_filter<Record, N> of one record type",
           "a filter expression with two severity_filter leaves set to different thresholds", ""),
 "C06-1": ("range insert stores the final size before it knows that the range fits: after the raise size() > capacity()",
           "a range insert/append that overshoots the capacity, the exception caught, another look at the container", ""),
 "C06-2": ("emplace(pos) shifts the tail before it constructs the new element",
           "an emplace strictly before end() on a non-empty, non-full vector and a throwing element constructor (or an argument aliasing an element)",
           "missed by the first C06 harness (faults only in copies/moves); element-constructor faults and self-element arguments were added"),
 "C07-1": ("copy assignment between vectors of equal capacity reuses the buffer and keeps a stale tail",
           "copy assignment (not construction), equal capacities, target strictly longer than the source", ""),
 "C07-2": ("move assignment transfers block and size but not capacity",
           "move assignment between vectors of different capacities, then an operation touching indices at/behind the smaller capacity", ""),
 "C08-1": ("in-place substitution in formatter::str() rescans inserted argument text",
           "an argument containing '{}' (or ending in '{' before a literal '}')", ""),
 "C08-2": ("a new operator% overload for const Char(&)[N] uses the array extent instead of the C-string length",
           "an lvalue of type const char[N] whose C-string is shorter than N-1 (NUL padded field)",
           "the C08 harness got a NUL-padded const char[8] argument kind when this seed arrived (run afterwards)"),
 "C09-1": ("stdout_mt flushes std::cout after releasing the sink mutex",
           ">= 2 threads and a std::cout stream buffer that is not itself thread-safe: one thread's sync() overlaps another's xsputn()", ""),
 "C09-2": ("logger::log() formats into a function-static std::string shared by all threads",
           ">= 3 threads with two formatted records piling up in front of the sink mutex: one is lost, the other emitted twice", ""),
 "C10-1": ("the runtime filter decision for untagged statements is cached per severity in a static",
           "an untagged statement at severity S, then set_severity above S, then another untagged statement at S in the same process", ""),
 "C10-2": ("the compile-time minimum is clamped to 'error': with minimum fatal, error() is a live stream",
           "exactly one of the 36 (minimum, severity) pairs: compile-time minimum fatal with a statement of severity error", ""),
 "C11-1": ("the polarity conflict is not checked when the positive occurrence uses the short letter",
           "a toggle that is reversible and has a short name, --no-<name> first, then a short token with its letter", ""),
 "C11-2": ("a falsy environment word falls back to the declared default instead of 0",
           "toggle bound to a variable, non-zero default, variable holds one of the 15 falsy words, toggle absent from the command line", ""),
 "C12-1": ("in greedy mode the first -- is dropped even when it comes after the first positional",
           "greedy_postionals() and at least one positional before the first --", ""),
 "C12-2": ("positional-only mode is a member that is never reset: it carries over into the next parse()",
           "reuse of one parser object where an earlier parse() entered positional-only mode",
           "missed by the first C12 check (fresh parser per case, C14 caught it); warm-up parses were added"),
 "C13-1": ("the parser-wide long-name lookup walks group_order_ only and so skips the default group",
           "a name declared first in the default group and then again (same or other kind) in a named group", ""),
 "C13-2": ("letter uniqueness is checked separately for value-taking options and for toggles",
           "a toggle and an option/multi-option sharing a letter", ""),
 "C14-1": ("prepare_options() is skipped until a parse() has succeeded",
           "every earlier parse() on the object failed after consuming at least one option, then another parse()", ""),
 "C14-2": ("multi_option::prepare() returns early when the option was not given (default-filled values survive)",
           "a multi-option with a non-empty default, an earlier parse where it was absent, then a parse that gives it (or reads env)", ""),
 "C15-1": ("the line-wrapping counter of format_padded() becomes std::size_t and wraps around after an over-long word",
           "a description/default/synopsis item with a word that cannot fit the text column, followed by more words",
           "missed by the permissive width rule of the plan; the rule was tightened to the statement's wording, which exposed defect D18 "
           "on the unchanged tree (fixed in a6115f6); the patch was ported by hand to the tree after that fix"),
 "C15-2": ("option lines are wrapped on the caller's stream relative to tellp() (two cooperating sites)",
           "usage() on a non-seekable target stream (std::cout, a pipe)", "patch re-applied with fuzz to the tree after fix a6115f6"),
 "C16-1": ("float/double are hashed by their bit pattern: +0.0 == -0.0 hash differently",
           "a floating-point zero whose sign differs between two equal values", ""),
 "C16-2": ("the tuple-comparison mix-in caches its hash and never invalidates it when members change",
           "hash an object, modify a member in place, hash or look it up again",
           "the C16 harness got the hash-modify-hash scenario when this seed arrived (run afterwards)"),
 "C17-1": ("early-exit 'optimisation' of split with an off-by-one: a trailing separator occurrence is not found",
           "haystack equal to the needle or ending in two adjacent separators", ""),
 "C17-2": ("join decides from the content whether an infix is due: dropped after an element that ends with the infix",
           "a non-empty element whose text ends with the infix, followed by another non-empty element", ""),
 "C18-1": ("quaint_ptr move assignment installs the source's deleter before disposing of the target's old object",
           "a move assignment onto a non-empty pointer holding another type than the source", ""),
 "C18-2": ("optional copy assignment resets the target before inspecting the source: self-assignment empties it",
           "copy assignment where source and target are the same engaged optional", ""),
 "C19-1": ("get(name, no_default) treats 'set to the empty string' as unset",
           "variable set to the empty string and read through the no_default overload", ""),
 "C19-2": ("symbol assignment swaps the function pointer but not the library owner",
           "assignment onto an existing symbol whose previous value came from another shared object, then destroying the source side", ""),
 "C20-1": ("reverse(T&&) no longer takes over const temporaries: they bind to reverse(const T&) and dangle",
           "a const-qualified temporary (function returning const std::vector<X> by value) and a way to observe the dangling (ASan)",
           "missed by the first C20 harness (no const temporaries; loops inside a helper extended the temporary's life); const "
           "temporaries and call-site loops were added"),
 "C20-2": ("enumerate iterator post-increment drops the index",
           "an explicit iterator loop using it++ over a range of length >= 2 (range-for uses pre-increment only)",
           "missed by the first C20 harness (range-for only); an explicit post-increment loop style was added"),
}

for name, (summary, needs, history) in A.items():
    p = os.path.join(V, "seeded", name, "meta.json")
    if not os.path.exists(p):
        continue
    m = json.load(open(p))
    m["summary"] = summary
    m["needs_to_manifest"] = needs
    if history:
        m["history"] = history
    m["delivered_by"] = "independent sub-agent given only the property text and a scratch worktree"
    with open(p, "w") as f:
        json.dump(m, f, indent=1)
        f.write("\n")
print("annotated", len(A))
