#!/usr/bin/env python3
"""Confirms a seeded defect and runs the checks against it.

    eval_seed.py <PROP> <seed-dir> <name> [--tiers quick,thorough] [--checks C01,C04]

<seed-dir> holds patch.diff, demo.cpp, build_demo.sh, notes.md (as delivered by a
seeding sub-agent). Steps, all in a scratch worktree of /repo's HEAD under
/var/tmp (never in /repo):
  1. clean tree: demo must pass
  2. apply patch: library builds, the repository's own suite passes (only the
     known Nitro.dl_test failure allowed), demo must fail
  3. run the quick tier of the named checks with --src <worktree>; the thorough
     tier for those that stayed green
  4. write /verif/seeded/<name>/{patch.diff,demo.cpp,build_demo.sh,notes.md,meta.json}
The worktree and its build output are removed afterwards.
"""
import argparse
import json
import os
import shutil
import subprocess
import sys
import time

VERIF = os.path.dirname(os.path.dirname(os.path.abspath(__file__)))


def sh(cmd, cwd=None, timeout=3600):
    p = subprocess.run(cmd, shell=True, cwd=cwd, stdout=subprocess.PIPE, stderr=subprocess.STDOUT,
                       timeout=timeout)
    return p.returncode, p.stdout.decode("utf-8", "replace")


def suite(wt):
    rc, out = sh(f"cmake -G Ninja -S {wt} -B {wt}/_build -DCMAKE_BUILD_TYPE=Debug >/dev/null && "
                 f"cmake --build {wt}/_build 2>&1 | tail -5 && ctest --test-dir {wt}/_build -j8 2>&1 | tail -15")
    failed = [l.strip() for l in out.splitlines() if "(Failed)" in l or "(Timeout)" in l
              or "(SEGFAULT)" in l or "Not Run" in l or "Subprocess aborted" in l]
    other = [l for l in failed if "Nitro.dl_test" not in l]
    built = "tests passed" in out or "tests failed" in out
    return built and not other, out[-1500:]


def demo(seed_dir, wt):
    tmp = f"/var/tmp/demo-{os.getpid()}"
    shutil.rmtree(tmp, ignore_errors=True)
    shutil.copytree(seed_dir, tmp)
    rc, out = sh(f"sh build_demo.sh {wt}", cwd=tmp, timeout=600)
    shutil.rmtree(tmp, ignore_errors=True)
    return rc, out[-1500:]


def main():
    ap = argparse.ArgumentParser()
    ap.add_argument("prop")
    ap.add_argument("seed_dir")
    ap.add_argument("name")
    ap.add_argument("--checks")
    ap.add_argument("--tiers", default="quick,thorough")
    ap.add_argument("--needs", default="")
    ap.add_argument("--skip-confirm", action="store_true",
                    help="do not rebuild the suite and the demonstration (confirmed by an earlier evaluation)")
    args = ap.parse_args()
    checks = (args.checks or args.prop).split(",")
    seed_dir = os.path.abspath(args.seed_dir)
    wt = f"/var/tmp/nitro-seed-{args.name}"
    sh(f"git -C /repo worktree remove --force {wt}")
    shutil.rmtree(wt, ignore_errors=True)
    rc, out = sh(f"git -C /repo worktree add -q {wt} HEAD")
    if rc:
        print(out)
        sys.exit(2)
    meta = {"property": args.prop, "name": args.name, "base_commit": sh("git -C /repo rev-parse --short HEAD")[1].strip(),
            "ran": [], "detected_by": {}, "date": time.strftime("%Y-%m-%d")}
    try:
        prev_meta = {}
        try:
            prev_meta = json.load(open(os.path.join(VERIF, "seeded", args.name, "meta.json")))
        except Exception:
            pass
        if args.skip_confirm and prev_meta.get("confirmed"):
            rc, out = sh(f"git -C {wt} apply {seed_dir}/patch.diff")
            if rc:
                meta["apply"] = "FAILED: " + out[-500:]
                print(json.dumps(meta, indent=1))
                sys.exit(2)
            for k in ("demo_on_clean_tree", "suite_with_change", "demo_with_change", "demo_output_with_change",
                      "confirmed"):
                if k in prev_meta:
                    meta[k] = prev_meta[k]
            meta["confirmation"] = "taken over from the evaluation of " + str(prev_meta.get("date"))
        else:
            rc0, out0 = demo(seed_dir, wt)
            meta["demo_on_clean_tree"] = "passes" if rc0 == 0 else f"FAILS (exit {rc0})"
            rc, out = sh(f"git -C {wt} apply {seed_dir}/patch.diff")
            if rc:
                meta["apply"] = "FAILED: " + out[-500:]
                print(json.dumps(meta, indent=1))
                sys.exit(2)
            ok, sout = suite(wt)
            meta["suite_with_change"] = "passes (only the known Nitro.dl_test failure)" if ok else "FAILS: " + sout[-800:]
            rc1, out1 = demo(seed_dir, wt)
            meta["demo_with_change"] = f"fails (exit {rc1})" if rc1 != 0 else "PASSES (change not demonstrated)"
            meta["demo_output_with_change"] = out1[-600:]
            shutil.rmtree(f"{wt}/_build", ignore_errors=True)
            valid = rc0 == 0 and ok and rc1 != 0
            meta["confirmed"] = valid
        for chk in checks:
            res = {}
            for tier in args.tiers.split(","):
                t0 = time.time()
                rc, out = sh(f"python3 {VERIF}/run_check.py {chk} --tier {tier} --src {wt} --no-evidence",
                             cwd=VERIF, timeout=4 * 3600)
                viol = [l for l in out.splitlines() if l.startswith("VIOLATION")]
                fails = [l for l in out.splitlines() if "REPLAY-FAIL" in l or "verdict=" in l
                         or "compile probe failed" in l]
                res[tier] = {"exit": rc, "violations": len(viol), "wall_s": round(time.time() - t0, 1),
                             "first_message": (fails[0][:400] if fails else "")}
                meta["ran"].append(f"python3 run_check.py {chk} --tier {tier} --src <worktree with patch>")
                if rc == 1 and viol:
                    break  # detected; no need for the deeper tier
            # a quick-only re-evaluation keeps the result of an earlier thorough run (it is not repeated)
            prev_chk = (prev_meta.get("detected_by") or {}).get(chk) or {}
            if "thorough" not in res and "thorough" in prev_chk and not (res.get("quick", {}).get("exit") == 1):
                res["thorough"] = dict(prev_chk["thorough"], carried_over=True)
            meta["detected_by"][chk] = res
        print(json.dumps(meta, indent=1))
    finally:
        sh(f"git -C /repo worktree remove --force {wt}")
        shutil.rmtree(wt, ignore_errors=True)
    dest = os.path.join(VERIF, "seeded", args.name)
    os.makedirs(dest, exist_ok=True)
    for f in ("patch.diff", "demo.cpp", "build_demo.sh", "notes.md"):
        if os.path.exists(os.path.join(seed_dir, f)) and os.path.abspath(seed_dir) != os.path.abspath(dest):
            shutil.copy(os.path.join(seed_dir, f), dest)
    old = os.path.join(dest, "meta.json")
    if os.path.exists(old):
        try:
            prev = json.load(open(old))
            for k in ("summary", "needs_to_manifest", "history", "delivered_by"):
                if k in prev:
                    meta[k] = prev[k]
        except Exception:
            pass
    if args.needs:
        meta["needs_to_manifest"] = args.needs
    elif "needs_to_manifest" not in meta:
        meta["needs_to_manifest"] = "see notes.md"
    with open(os.path.join(dest, "meta.json"), "w") as f:
        json.dump(meta, f, indent=1)
        f.write("\n")


if __name__ == "__main__":
    main()
