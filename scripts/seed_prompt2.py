#!/usr/bin/env python3
"""second-round seeding prompt: three more changes, away from the ideas already seeded"""
import json, sys, os, glob
pid = sys.argv[1]
wt = sys.argv[2]
for l in open('/verif/properties.jsonl'):
    p = json.loads(l)
    if p['id'] == pid:
        break
known = []
for d in sorted(glob.glob('/verif/seeded/*/meta.json')):
    m = json.load(open(d))
    if m.get('property') == pid and m.get('summary'):
        known.append(m['summary'])
base = open('/verif/scripts/seed_prompt.py').read()
import subprocess
text = subprocess.run([sys.executable, '/verif/scripts/seed_prompt.py', pid, wt], stdout=subprocess.PIPE).stdout.decode()
text = text.replace("Your job: produce TWO different, independent, realistic code changes", "Your job: produce THREE different, independent, realistic code changes")
text = text.replace("The two changes should have different root causes and sit at different code sites.",
    "The three changes should have different root causes and sit at different code sites (different functions; different files where the property spans several). Prefer defects that hide in an interaction of features, in state carried between calls, in rarely taken branches, in boundary values or in unusual-but-legal inputs.")
text = text.replace("under {wt}/out/1/ and {wt}/out/2/".format(wt=wt), "under {wt}/out/1/, {wt}/out/2/ and {wt}/out/3/".format(wt=wt))
text = text.replace("For each of the two changes deliver", "For each of the three changes deliver")
extra = "\n\nThe following ideas have ALREADY been used for this property; do not deliver these or close variants of them, find different ones:\n" + "\n".join("  - " + k for k in known) + "\n"
extra += "\nIf one of the three turns out impossible to make pass the existing suite, deliver the ones that work and say so.\n"
print(text + extra)
