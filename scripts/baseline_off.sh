#!/bin/sh
# Builds nitro without the verification guard (no -DNITRO_VERIF anywhere) and
# runs the repository's own suite. Nitro.dl_test's two "self binary" cases fail
# on the pinned baseline already (BASELINE.json always_fail); everything else
# must pass.
set -e
BUILD=${1:-/repo/_build}
cmake -G Ninja -S /repo -B "$BUILD" >/dev/null
cmake --build "$BUILD" >/dev/null
cd "$BUILD"
ctest -j8 --timeout 900 --output-junit "$BUILD/verif_baseline.junit.xml" > "$BUILD/verif_baseline.log" 2>&1 || true
failed=$(grep -E "^\s+[0-9]+ - .*\(Failed\)|\(Timeout\)|\(SEGFAULT\)|\(Not Run\)|\(Subprocess aborted\)" "$BUILD/verif_baseline.log" | grep -v "Nitro.dl_test" || true)
tail -n 12 "$BUILD/verif_baseline.log"
if [ -n "$failed" ]; then
    echo "BASELINE FAILED: $failed"
    exit 1
fi
# dl_test: exactly the two known "self binary" cases may fail
if grep -q "Nitro.dl_test (Failed)" "$BUILD/verif_baseline.log"; then
    ctest -R Nitro.dl_test --output-on-failure > "$BUILD/verif_baseline_dl.log" 2>&1 || true
    nfail=$(grep -c "dl_test.cpp:[0-9]*: FAILED:" "$BUILD/verif_baseline_dl.log" || true)
    nknown=$(grep -A3 "FAILED:" "$BUILD/verif_baseline_dl.log" | grep -c "Couldn't open symbol 'nitro_binary_cos'" || true)
    if [ "$nfail" != "2" ] || [ "$nknown" != "2" ]; then
        echo "BASELINE FAILED: Nitro.dl_test fails beyond the two known cases"
        cat "$BUILD/verif_baseline_dl.log"
        exit 1
    fi
fi
echo "BASELINE OK (guard off)"
