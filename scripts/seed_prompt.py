#!/usr/bin/env python3
"""prints the prompt for a mutation-seeding sub-agent: property text + worktree only"""
import json, sys
pid = sys.argv[1]
wt = sys.argv[2]
for l in open('/verif/properties.jsonl'):
    p = json.loads(l)
    if p['id'] == pid:
        break
print(f"""You are helping to evaluate a verification effort for the C++ library tud-zih-energy/nitro (a collection of small helper libraries: command-line option parser, logging, string formatting, fixed_vector, hashing, dlopen/env wrappers). You work ONLY inside your own scratch git worktree of the library at {wt} (never touch /repo or /verif, and do not read anything under /verif). There is no network access.

Here is a semantic property the library is supposed to satisfy:

  Title: {p['title']}
  Statement: {p['statement']}
  Quantified over: {p['quantifier']['text']}
  Relevant files (relative to the worktree): {', '.join(p['anchors']['files'])}

Your job: produce TWO different, independent, realistic code changes ("seeded defects") to the library sources under {wt}/include or {wt}/src, each of which
  (a) BREAKS the property above,
  (b) still compiles, and
  (c) still passes the library's existing test suite, and
  (d) needs something specific to manifest - a multi-step sequence of operations, an unusual input, a particular combination of declaration features, a particular interleaving or fault point, or two cooperating code sites that each look fine alone - NOT a change that ordinary everyday use would expose at once. Think of the kind of subtle regression a maintainer could plausibly introduce during a refactoring or an "optimisation". The two changes should have different root causes and sit at different code sites.

How to build and run the existing suite in your worktree:
  cmake -G Ninja -S {wt} -B {wt}/_build -DCMAKE_BUILD_TYPE=Debug >/dev/null && cmake --build {wt}/_build && ctest --test-dir {wt}/_build -j8
On the unmodified tree everything passes EXCEPT Nitro.dl_test, which fails by design in this sandbox (2 known failing cases about 'nitro_binary_cos'); that one failing is fine, nothing else may fail. Tests use Catch2 and live in {wt}/tests.

For each of the two changes deliver, under {wt}/out/1/ and {wt}/out/2/:
  - patch.diff : the change as `git diff` output relative to the worktree's HEAD (must apply with `git apply` to a clean checkout of the same commit; only files under include/ or src/),
  - demo.cpp : a small standalone C++17 program (no test framework needed) that exits 0 when the property holds for its scenario and exits non-zero (printing what went wrong) when it is violated; it must FAIL with your change applied and PASS on the unmodified tree,
  - build_demo.sh : the exact command(s) to compile and run demo.cpp against a nitro source tree given as $1 (e.g. g++ -std=gnu++17 -I$1/include demo.cpp $1/src/options/*.cpp $1/src/env/get.cpp -o demo && ./demo ; for header-only parts leave out the .cpp files; add -pthread / -ldl if needed),
  - notes.md : 5-10 lines: what the change is, why it breaks the property, what exactly is needed for it to manifest, and why the existing tests do not notice.

Procedure you must follow and report: (1) build and run the suite on the unmodified worktree; (2) for each change: apply it, rebuild, run the whole suite and confirm that nothing beyond Nitro.dl_test fails, run the demo and confirm it fails; then `git checkout -- .` (keep the out/ directory, it is untracked) and confirm the demo passes on the clean tree. Make sure that at the end the worktree's tracked files are unmodified (git status shows only out/ and _build/ as untracked) and delete {wt}/_build to save disk space.

In your final answer give, per change: the one-line description, the files touched, what it needs to manifest, and the observed results of the suite and the demo (with and without the change). Be honest: if you could not find a change satisfying all of (a)-(d), say so rather than delivering one that the existing tests catch or that does not really break the property as stated.""")
