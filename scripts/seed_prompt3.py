#!/usr/bin/env python3
"""third-round seeding prompt: adversarial - defects that random/property-based testing is unlikely to reach"""
import json, sys, glob, subprocess
pid = sys.argv[1]
wt = sys.argv[2]
known = []
for d in sorted(glob.glob('/verif/seeded/*/meta.json')):
    m = json.load(open(d))
    if m.get('property') == pid and m.get('summary'):
        known.append(m['summary'])
text = subprocess.run([sys.executable, '/verif/scripts/seed_prompt.py', pid, wt], stdout=subprocess.PIPE).stdout.decode()
text = text.replace("Your job: produce TWO different, independent, realistic code changes", "Your job: produce THREE different, independent, realistic code changes")
text = text.replace("The two changes should have different root causes and sit at different code sites.",
    "The three changes should have different root causes and sit at different code sites. IMPORTANT - be adversarial: assume the people checking this property use randomised property-based testing and fuzzing with sanitizers (random declarations, random inputs, random operation sequences of moderate length, comparison against a reference model). Craft defects that such testing is UNLIKELY to stumble on: they should need a rare coincidence - a particular value or length (a power of two, a specific character, a length above some threshold), a particular ORDER of three or more specific operations, a specific combination of three or more declaration features, equality of two things that are usually different, an input that is legal but that nobody thinks of generating, a second object of the same kind interfering, and so on. But each must still be a genuine violation of the property statement as written (not of something the statement does not promise), and realistic (something a maintainer could plausibly write).")
text = text.replace("under {wt}/out/1/ and {wt}/out/2/".format(wt=wt), "under {wt}/out/1/, {wt}/out/2/ and {wt}/out/3/".format(wt=wt))
text = text.replace("For each of the two changes deliver", "For each of the three changes deliver")
extra = "\n\nThe following ideas have ALREADY been used for this property; do not deliver these or close variants of them:\n" + "\n".join("  - " + k for k in known) + "\n"
extra += "\nIf one of the three turns out impossible to make pass the existing suite, deliver the ones that work and say so. In notes.md state explicitly why you think randomised testing would be unlikely to hit the defect.\n"
print(text + extra)
