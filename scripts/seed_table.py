#!/usr/bin/env python3
"""prints the markdown table of seeded changes from seeded/*/meta.json (+ first line of notes.md)"""
import glob
import json
import os

V = os.path.dirname(os.path.dirname(os.path.abspath(__file__)))
print("| seed | what the change does (from its notes) | caught by (tier, wall s) |")
print("|------|----------------------------------------|--------------------------|")
for d in sorted(glob.glob(os.path.join(V, "seeded", "*"))):
    m = json.load(open(os.path.join(d, "meta.json")))
    what = m.get("summary")
    if not what:
        try:
            lines = [l.strip() for l in open(os.path.join(d, "notes.md")) if l.strip()]
            what = " ".join(l.lstrip("#*- ") for l in lines[:2])[:170]
        except OSError:
            what = ""
    det = []
    for chk, res in m.get("detected_by", {}).items():
        hit = None
        for tier in ("quick", "thorough"):
            if tier in res and res[tier]["exit"] == 1 and res[tier]["violations"] > 0:
                hit = f"{chk} {tier} ({res[tier]['wall_s']:.0f} s)"
                break
        det.append(hit or f"{chk}: not caught")
    hist = m.get("history", "")
    print(f"| {m['name']} | {what.replace('|', '/')} | {'; '.join(det)}{' — ' + hist if hist else ''} |")
