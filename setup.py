#!/usr/bin/env python3
"""Offline setup: pre-build every harness binary from /repo's working tree so
that the quick commands start from a warm cache. Nothing is downloaded."""
import os
import sys
import time
from concurrent.futures import ThreadPoolExecutor

VERIF = os.path.dirname(os.path.abspath(__file__))
sys.path.insert(0, VERIF)
from vlib import props as P  # noqa: E402
from vlib import build as B  # noqa: E402

t0 = time.time()
failed = []


def one(pid):
    try:
        B.build_all(P.PROPS[pid]["build"])
        return pid, None
    except B.BuildError as e:
        return pid, str(e)


with ThreadPoolExecutor(max_workers=4) as ex:
    for pid, err in ex.map(one, sorted(P.PROPS)):
        print(f"[setup] {pid}: {'ok' if err is None else 'FAILED'}", flush=True)
        if err:
            failed.append((pid, err))
for pid, err in failed:
    print(f"--- {pid}\n{err}")
print(f"[setup] done in {time.time() - t0:.0f}s")
sys.exit(1 if failed else 0)
