#!/usr/bin/env python3
"""Generated-program harness for C05 / C10 (nitro::log).

Derives whole C++ programs from the seed: a record type (with or without tag
attribute), a runtime filter *type tree* over and/or/not/severity_filter<R,N>/
null_filter (every leaf its own N), a sink (plain or sequence of 1-4 recording
sinks), 5-40 log statements of random shape (severity, one expression or a named
stream object filled over several statements, tag or not, 0-5 streamed items:
string literals, std::string, const char*, int, double, char, callables
returning std::string / const char*), compiled at one of the six compile-time
minima. The program runs every statement under EVERY assignment of runtime
thresholds (6^leaves, exhaustive) and prints an event trace; the Python
reference model below computes the expected trace independently.

    enabled(s) := s >= MIN and eval(filter tree, s, thresholds)
    enabled  -> callables called once each, in streaming order, then exactly one
                format(severity, tag, message = concatenation of item renderings),
                then one sink event per sequence member, in declaration order,
                all carrying the formatter's output
    disabled -> no event at all (no call, no format, no sink)

C05 compares the projection without call events; C10 compares call events,
marks and the *presence* of format/sink events, plus static_asserts on the
statement types (null_stream below the compile-time minimum).

Interface (a "script" job of run_check.py):
    logprog.py --prop C05|C10 --n N --stats F --art PREFIX --seed S --workdir W --src ROOT
    logprog.py --replay CASEFILE --src ROOT        (exit 1 + REPLAY-FAIL if it still fails)
"""
import argparse
import array
import hashlib
import json
import os
import random
import subprocess
import sys
from concurrent.futures import ThreadPoolExecutor

SEV = ["trace", "debug", "info", "warn", "error", "fatal"]


# ------------------------------------------------------------------ generation

def gen_filter(rng, depth, st):
    """returns a tree: ('sev', n) | ('null',) | ('and', a, b) | ('or', a, b) | ('not', a);
    every severity leaf gets its own N (and_/or_filter derive from both operands, so a type may
    occur only once), at most one null_filter leaf, at most three severity leaves"""
    def leaf():
        # a filter that looks at the tag of the record (only for records with a tag attribute)
        if st.get("tag_ok") and not st.get("tag_used") and rng.random() < 0.18:
            st["tag_used"] = True
            return ("tag",)
        if st["leaves"] < 3 and (st["null_used"] or rng.random() < 0.85):
            st["leaves"] += 1
            # a user filter built on top of the library's threshold filter (public base) with a condition of its own
            if st.get("tag_ok") and rng.random() < 0.2:
                return ("strict", st["leaves"] - 1)
            return ("sev", st["leaves"] - 1)
        if not st["null_used"]:
            st["null_used"] = True
            return ("null",)
        return None
    if depth == 0 or rng.random() < 0.15:
        return leaf()
    kind = rng.choice(["and", "or", "not"])
    if kind == "not":
        sub = gen_filter(rng, depth - 1, st)
        return ("not", sub) if sub else None
    a = gen_filter(rng, depth - 1, st)
    b = gen_filter(rng, depth - 1, st)
    if a and b:
        return (kind, a, b)
    return a or b


def filter_cpp(t):
    if t[0] == "sev":
        return f"nitro::log::filter::severity_filter<R, {t[1]}>"
    if t[0] == "null":
        return "nitro::log::filter::null_filter<R>"
    if t[0] == "tag":
        return "TagFilter<R>"
    if t[0] == "strict":
        return f"StrictFilter<R, {t[1]}>"
    if t[0] == "budget":
        return "BudgetFilter<R>"
    if t[0] == "not":
        return f"nitro::log::filter::not_filter<{filter_cpp(t[1])}>"
    return f"nitro::log::filter::{t[0]}_filter<{filter_cpp(t[1])}, {filter_cpp(t[2])}>"


def filter_str(t):
    if t[0] == "sev":
        return f"s>=T{t[1]}"
    if t[0] == "null":
        return "true"
    if t[0] == "tag":
        return "tag!=mute"
    if t[0] == "strict":
        return f"(s>=T{t[1]} && tag!=mute)[derived from severity_filter]"
    if t[0] == "budget":
        return f"(s>=error || one of the first {t[1]} asked)[stateful filter object]"
    if t[0] == "not":
        return f"!({filter_str(t[1])})"
    return f"({filter_str(t[1])} {'&&' if t[0] == 'and' else '||'} {filter_str(t[2])})"


def filter_eval(t, s, th, tag=""):
    if t[0] == "sev":
        return s >= th[t[1]]
    if t[0] == "null":
        return True
    if t[0] == "tag":
        return tag != "mute"
    if t[0] == "strict":
        return s >= th[t[1]] and tag != "mute"
    if t[0] == "budget":
        raise RuntimeError("a stateful filter is simulated by the caller")
    if t[0] == "not":
        return not filter_eval(t[1], s, th, tag)
    if t[0] == "and":
        return filter_eval(t[1], s, th, tag) and filter_eval(t[2], s, th, tag)
    return filter_eval(t[1], s, th, tag) or filter_eval(t[2], s, th, tag)


def filter_ops(t):
    if t[0] in ("sev", "null", "tag", "strict", "budget"):
        return 0
    return 1 + sum(filter_ops(x) for x in t[1:])


ITEM_KINDS = ["lit", "string", "cstr", "int", "double", "char", "call_s", "call_c", "call_obj", "failbit",
              "chararr", "call_mut", "hex", "dec", "w6", "showpos", "big", "call_boolfalse", "call_throw"]


def gen_item(rng, uid, callable_bias):
    w = [3, 2, 2, 2, 1, 1] + [callable_bias, callable_bias * 0.6, callable_bias * 0.6] + [0.25] + \
        [0.8, callable_bias * 0.3] + [0.5, 0.2, 0.5] + [0.4, 0.12, callable_bias * 0.25, callable_bias * 0.25]
    kind = rng.choices(ITEM_KINDS, weights=w)[0]
    if kind in ("lit", "string", "cstr", "chararr"):
        text = rng.choice(["a", "msg", "x y", "", "{}", "[t]", "0", "T|F", "end."]) + str(uid % 7)
        return {"kind": kind, "text": text}
    if kind == "int":
        return {"kind": kind, "text": str(rng.choice([0, 1, -1, 42, 65536, -2147483647]))}
    if kind == "double":
        return {"kind": kind, "text": rng.choice(["0.5", "2.5", "-1.25", "100", "1e+06"])}
    if kind == "char":
        return {"kind": kind, "text": rng.choice("cZ#1")}
    if kind == "big":
        # a text of more than 64 KiB
        return {"kind": kind, "text": "", "n": rng.choice([65535, 65536, 70000])}
    if kind in ("hex", "dec", "w6", "showpos"):
        # stream manipulators: state that later items of the same statement are formatted with
        return {"kind": kind, "text": ""}
    if kind == "failbit":
        # inserting a null stream buffer sets failbit on the statement's stream: nothing that is
        # streamed afterwards reaches the message, but the statement still is a statement
        return {"kind": kind, "text": ""}
    return {"kind": kind, "text": f"<r{uid}>", "cid": uid}


def gen_program(seed, prop):
    rng = random.Random(seed)
    p = {"seed": seed, "prop": prop, "min": seed % 6}
    p["has_tag"] = rng.random() < 0.75
    st = {"leaves": 0, "null_used": False, "tag_ok": p["has_tag"]}
    p["filter"] = gen_filter(rng, rng.choice([0, 1, 2, 3, 3, 3]), st) or ("null",)
    p["leaves"] = st["leaves"]
    # now and then the filter is an object with state of its own: it lets records below error through only
    # the first few times it is asked
    if rng.random() < 0.06:
        p["filter"] = ("budget", rng.choice([1, 2, 3, 5]))
        p["leaves"] = 0
    p["nsinks"] = rng.choice([0, 1, 2, 3, 4, 0, 1, 2, 3, 4, 5, 6, 7, 9, 11])  # 0 = a plain sink, not a sequence
    p["nested"] = p["nsinks"] >= 3 and rng.random() < 0.4  # sequence<S0, sequence<S1>, S2...>
    # one sink member reports every record it receives with a log statement of its own (an audit
    # trail), issued from inside sink() before it stores the record
    p["audit"] = rng.randrange(max(1, p["nsinks"])) if rng.random() < 0.25 else None
    nst = rng.randint(5, 40)
    bias = 4.0 if prop == "C10" else 1.2
    uid = 0
    stmts = []
    for k in range(nst):
        s = {"sev": rng.randrange(6), "named": rng.random() < 0.45,
             "tag": None, "items": []}
        if rng.random() < 0.5:
            s["tag"] = rng.choice(["tag", "", "MPI", "a b", "mute", "mute"])
        for _ in range(rng.choice([0, 1, 1, 2, 2, 3, 4, 5]) if rng.random() < 0.95 else rng.randint(9, 20)):
            uid += 1
            s["items"].append(gen_item(rng, uid, bias))
        # a named stream object stays open over several statements: now and then another,
        # complete statement is executed while it is open (its record arrives first)
        if s["named"] and rng.random() < 0.3:
            inner = {"sev": rng.randrange(6), "named": False, "tag": None, "items": []}
            if rng.random() < 0.5:
                inner["tag"] = rng.choice(["in", "", "tag", "mute"])
            for _ in range(rng.choice([0, 1, 2])):
                uid += 1
                inner["items"].append(gen_item(rng, uid, bias))
            s["inner"] = {"at": rng.randint(0, len(s["items"])), "stmt": inner}
        # the tag comes from storage that is reused (1) or gone (2) once the stream object exists
        if s["named"] and s["tag"] and rng.random() < 0.35:
            s["tagbuf"] = rng.choice([1, 2])
        # the statement completes while an exception is in flight: in a destructor run by stack
        # unwinding (1), or a named stream object destroyed by unwinding (2)
        if "inner" not in s and rng.random() < 0.12:
            s["unwind"] = 2 if s["named"] and rng.random() < 0.5 else 1
        # the named stream is the result of a chain (creation plus first item) bound to a forwarding
        # reference: auto&& log = L::info() << first; log << second;
        if s["named"] and s["items"] and rng.random() < 0.3:
            s["bindchain"] = True
        # a throwing callable needs a statement that can go on afterwards: the named form, not in the declaration
        for pos, it in enumerate(s["items"]):
            if it["kind"] == "call_throw" and (not s["named"] or (s.get("bindchain") and pos == 0)):
                it["kind"] = "call_s"
        if s.get("inner"):
            for it in s["inner"]["stmt"]["items"]:
                if it["kind"] == "call_throw":
                    it["kind"] = "call_s"  # the statement inside is a one-expression statement
        # the runtime thresholds change while a named stream object is open: the statement was
        # accepted or rejected when it began
        if s["named"] and "inner" not in s and rng.random() < 0.2:
            s["bump"] = True
        stmts.append(s)
    # at most one text of more than 64 KiB per program, and only where the threshold space is small
    seen_big = st["leaves"] > 1
    for s in stmts:
        for it in s["items"] + (s["inner"]["stmt"]["items"] if s.get("inner") else []):
            if it["kind"] == "big":
                if seen_big:
                    it["kind"] = "lit"
                    it["text"] = "B"
                seen_big = True
    p["stmts"] = stmts
    return p


# ------------------------------------------------------------------ C++ text

def cstr(s):
    return '"' + s.replace("\\", "\\\\").replace('"', '\\"') + '"'


def item_cpp(it, k, j):
    """returns (declarations in function scope, expression streamed)"""
    kind = it["kind"]
    if kind == "lit":
        return "", cstr(it["text"])
    if kind == "string":
        return f"    std::string v{j} = {cstr(it['text'])};\n", f"v{j}"
    if kind == "cstr":
        return f"    const char* v{j} = {cstr(it['text'])};\n", f"v{j}"
    if kind == "int":
        return f"    int v{j} = {it['text']};\n", f"v{j}"
    if kind == "double":
        return f"    double v{j} = {it['text']};\n", f"v{j}"
    if kind == "char":
        return f"    char v{j} = '{it['text']}';\n", f"v{j}"
    if kind == "failbit":
        return f"    std::streambuf* v{j} = nullptr;\n", f"v{j}"
    if kind == "showpos":
        return "", "std::showpos"
    if kind == "big":
        return f"    std::string v{j}({it['n']}, 'B');\n", f"v{j}"
    if kind == "hex":
        return "", "std::hex"
    if kind == "dec":
        return "", "std::dec"
    if kind == "w6":
        return "", "std::setfill('0') << std::setw(6)"
    if kind == "chararr":
        # a buffer that merely holds a C string shorter than itself
        return f"    char v{j}[16] = {cstr(it['text'])};\n", f"v{j}"
    cid = it["cid"]
    if kind == "call_throw":
        # a callable that throws (the statement goes on: the exception is caught around the insertion)
        return "", f'[]() -> std::string {{ ev("C{cid}"); throw 7; }}'
    if kind == "call_boolfalse":
        # a function object that also converts to bool - and says false (e.g. "not computed yet")
        return (f"    struct Fb{j} {{ explicit operator bool() const {{ return false; }} std::string operator()() const "
                f"{{ ev(\"C{cid}\"); return {cstr(it['text'])}; }} }} fb{j};\n", f"fb{j}")
    if kind == "call_mut":
        return (f"    struct Fm{j} {{ int n = 0; std::string operator()() {{ ++n; ev(\"C{cid}\"); "
                f"return {cstr(it['text'])}; }} }} fm{j};\n", f"fm{j}")
    if kind == "call_s":
        return "", f'[]() -> std::string {{ ev("C{cid}"); return {cstr(it["text"])}; }}'
    if kind == "call_c":
        return "", f'[]() -> const char* {{ ev("C{cid}"); return {cstr(it["text"])}; }}'
    return (f"    struct Fn{j} {{ std::string operator()() const {{ ev(\"C{cid}\"); "
            f"return {cstr(it['text'])}; }} }} fn{j};\n", f"fn{j}")


def program_cpp(p):
    out = []
    a = out.append
    a("// generated by /verif/gen/logprog.py - seed %d, property %s, compile-time minimum %s" %
      (p["seed"], p["prop"], SEV[p["min"]]))
    a("#include <nitro/log/attribute/message.hpp>\n#include <nitro/log/attribute/severity.hpp>\n"
      "#include <nitro/log/attribute/tag.hpp>\n#include <nitro/log/attribute/timestamp.hpp>\n"
      "#include <nitro/log/filter/and_filter.hpp>\n#include <nitro/log/filter/not_filter.hpp>\n"
      "#include <nitro/log/filter/null_filter.hpp>\n#include <nitro/log/filter/or_filter.hpp>\n"
      "#include <nitro/log/filter/severity_filter.hpp>\n#include <nitro/log/log.hpp>\n"
      "#include <nitro/log/sink/sequence.hpp>\n"
      "#include <cstdio>\n#include <cstring>\n#include <iomanip>\n#include <streambuf>\n#include <string>\n#include <type_traits>\n#include <vector>\n")
    a("static std::vector<std::string> trace;\n"
      "// long texts are abbreviated in the trace: first 120 characters, length and an FNV-1a hash\n"
      "static void ev(const std::string& s) { if (s.size() <= 400) { trace.push_back(s); return; } "
      "unsigned long long h = 1469598103934665603ull; for (unsigned char ch : s) { h ^= ch; h *= 1099511628211ull; } "
      "trace.push_back(s.substr(0, 120) + \"...(\" + std::to_string(s.size()) + \" bytes, \" + std::to_string(h) + \")\"); }\n")
    a("struct CountingClock { typedef long time_point; static long now() { static long t = 0; return ++t; } };\n")
    attrs = (["nitro::log::tag_attribute"] if p["has_tag"] else []) + \
        ["nitro::log::message_attribute", "nitro::log::severity_attribute",
         "nitro::log::timestamp_clock_attribute<CountingClock>"]
    a("using Record = nitro::log::record<%s>;\n" % ", ".join(attrs))
    a("static std::string sevstr(nitro::log::severity_level s) { return std::to_string(static_cast<int>(s)); }\n")
    tag_expr = "r.tag()" if p["has_tag"] else 'std::string("-")'
    a("template <typename R> struct Fmt { std::string format(R& r) { std::string o = \"F|\" + "
      "sevstr(r.severity()) + \"|\" + %s + \"|\" + r.message(); ev(o); return o; } };\n" % tag_expr)
    # members with an odd index take the formatted record BY VALUE (a queueing sink would)
    audit = p.get("audit")
    a("static void audit();")
    a("template <int K> struct RecSink { void sink(nitro::log::severity_level s, "
      "typename std::conditional<K % 2 == 1, std::string, const std::string&>::type t) "
      "{ if (K == AUDIT_MEMBER && t.find(\"audit\") == std::string::npos) audit(); "
      "ev(\"S\" + std::to_string(K) + \"|\" + sevstr(s) + \"|\" + t); } };\n".replace(
          "AUDIT_MEMBER", str(-1 if audit is None else audit)))
    if p["has_tag"]:
        a("template <typename R> struct TagFilter { typedef R record_type; "
          "bool filter(R& r) const { return r.tag() != \"mute\"; } };\n")
        a("template <typename R, unsigned N> struct StrictFilter : public nitro::log::filter::severity_filter<R, N> "
          "{ typedef R record_type; bool filter(R& r) const { return nitro::log::filter::severity_filter<R, N>::filter(r) "
          "&& r.tag() != \"mute\"; } };\n")
    if p["filter"][0] == "budget":
        a("template <typename R> struct BudgetFilter { typedef R record_type; mutable int left = %d; "
          "bool filter(R& r) const { if (static_cast<int>(r.severity()) >= 4) return true; "
          "if (left > 0) { --left; return true; } return false; } };\n" % p["filter"][1])
    a("template <typename R> using Filter = %s;\n" % filter_cpp(p["filter"]))
    if p["nsinks"] == 0:
        sink = "RecSink<0>"
    elif p.get("nested"):
        members = [f"RecSink<{k}>" for k in range(p["nsinks"])]
        members[1] = f"nitro::log::sink::sequence<{members[1]}>"
        sink = "nitro::log::sink::sequence<%s>" % ", ".join(members)
    else:
        sink = "nitro::log::sink::sequence<%s>" % ", ".join(f"RecSink<{k}>" for k in range(p["nsinks"]))
    a(f"using L = nitro::log::logger<Record, Fmt, {sink}, Filter>;\n")
    a("static void audit() { L::error() << \"audit\"; }\n")
    # the type-level half of C10: below the compile-time minimum the statement type discards everything
    for s, name in enumerate(SEV):
        want_null = "true" if s < p["min"] else "false"
        a(f"static_assert(std::is_same<decltype(L::{name}()), nitro::log::detail::null_stream>::value == "
          f"{want_null}, \"statement type of {name} at minimum {SEV[p['min']]}\");")
        if s >= p["min"]:
            a(f"static_assert(std::is_same<decltype(L::{name}()), nitro::log::detail::smart_stream<Record, Fmt, "
              f"{sink}, Filter, nitro::log::severity_level::{name}>>::value, \"smart_stream expected\");")
    a("")
    nl0 = p["leaves"]
    a("static int cur[4] = { 0, 0, 0, 0 };")
    a("static void set_thresholds(int shift)\n{\n    (void)shift;")
    for i in range(nl0):
        a(f"    nitro::log::filter::severity_filter<Record, {i}>::set_severity("
          f"static_cast<nitro::log::severity_level>((cur[{i}] + shift) % 6));")
    a("}\n")
    for k, s in enumerate(p["stmts"]):
        a(f"static void stmt_{k}()\n{{")
        if s.get("unwind") == 1:
            a("    struct Guard\n    {\n    ~Guard()\n    {")
        decls, exprs = "", []
        for j, it in enumerate(s["items"]):
            d, e = item_cpp(it, k, j)
            decls += d
            exprs.append(e)
        inner_line = None
        if s.get("inner"):
            iexprs = []
            for j, it in enumerate(s["inner"]["stmt"]["items"]):
                d, e = item_cpp(it, k, 100 + j)
                decls += d
                iexprs.append(e)
            ist = s["inner"]["stmt"]
            itag = "" if ist["tag"] is None else cstr(ist["tag"])
            inner_line = "        " + " << ".join([f"L::{SEV[ist['sev']]}({itag})"] + iexprs) + ";"
        if decls:
            a(decls.rstrip("\n"))
        tag = "" if s["tag"] is None else cstr(s["tag"])
        call = f"L::{SEV[s['sev']]}({tag})"
        if s.get("tagbuf") == 1:
            a(f"    char tagbuf[24] = {tag};")
            call = f"L::{SEV[s['sev']]}(tagbuf)"
        elif s.get("tagbuf") == 2:
            call = f"L::{SEV[s['sev']]}(std::string({tag}) + std::string())"
        if s["named"]:
            a("    try {" if s.get("unwind") == 2 else "    {")
            chain0 = s.get("bindchain") and exprs
            if chain0:
                a(f"        auto&& log = {call} << {exprs[0]};")
            else:
                a(f"        auto log = {call};")
            if s.get("tagbuf") == 1:
                a('        std::strcpy(tagbuf, "overwritten");')
            if s.get("bump"):
                a("        set_thresholds(3);")
            a(f'        ev("M{k}.0");')
            if inner_line and s["inner"]["at"] == 0:
                a(inner_line)
            for j, e in enumerate(exprs):
                if not (chain0 and j == 0):
                    if s["items"][j]["kind"] == "call_throw":
                        a(f"        try {{ log << {e}; }} catch (int) {{}}")
                    else:
                        a(f"        log << {e};")
                a(f'        ev("M{k}.{j + 1}");')
                if inner_line and s["inner"]["at"] == j + 1:
                    a(inner_line)
            if s.get("unwind") == 2:
                a("        throw 1;\n    } catch (int) {}")
            else:
                a("    }")
            if s.get("bump"):
                a("    set_thresholds(0);")
        else:
            a("    " + " << ".join([call] + exprs) + ";")
        if s.get("unwind") == 1:
            a("    }\n    };\n    try { Guard g; throw 1; } catch (int) {}")
        a("}\n")
    a("// the decision of the real runtime filter for a record of that severity (C10 is stated relative to it)")
    settag = "r.tag() = tag; " if p["has_tag"] else "(void)tag; "
    a("static int will(int sev, const char* tag) { Record r; r.severity() = "
      "static_cast<nitro::log::severity_level>(sev); " + settag + "return L::will_log(r) ? 1 : 0; }\n")
    a("// the same question while the thresholds are shifted (what a sink asks while a statement with shifted "
      "thresholds is being delivered)")
    a("static int will_shifted(int sev, const char* tag) { set_thresholds(3); int w = will(sev, tag); "
      "set_thresholds(0); return w; }\n")
    a("int main()\n{")
    nl = p["leaves"]
    for i in range(nl):
        a(f"    for (int t{i} = 0; t{i} < 6; ++t{i})")
    a("    {")
    for i in range(nl):
        a(f"        cur[{i}] = t{i};")
    a("        set_thresholds(0);")
    a('        std::printf("T' + " %d" * nl + '\\n"' + "".join(f", t{i}" for i in range(nl)) + ");")
    for k in range(len(p["stmts"])):
        st_k = p['stmts'][k]
        inner_st = st_k['inner']['stmt'] if st_k.get('inner') else st_k
        a(f"        trace.clear(); stmt_{k}(); std::printf(\"#{k} W%d W%d W%d W%d\\n\", "
          f"will({st_k['sev']}, {cstr(st_k['tag'] or '')}), will({inner_st['sev']}, {cstr(inner_st['tag'] or '')}), "
          "will(4, \"\"), will_shifted(4, \"\")); "
          "for (auto& e : trace) std::printf(\"%s\\n\", e.c_str());")
    a("    }\n    return 0;\n}")
    return "\n".join(out) + "\n"


# ------------------------------------------------------------------ reference model

def render(it):
    return it["text"]


def message_of(items):
    """concatenation of the item renderings, under the stream state the manipulators among them set"""
    msg = ""
    hexmode = False
    width = False
    showpos = False
    for it in items:
        kind = it["kind"]
        if kind == "failbit":
            break  # the stream is in a failed state from here on
        if kind == "hex":
            hexmode = True
            continue
        if kind == "dec":
            hexmode = False
            continue
        if kind == "w6":
            width = True  # setfill('0') stays, setw(6) holds for the next item only
            continue
        if kind == "showpos":
            showpos = True
            continue
        if kind == "call_throw":
            continue  # called, threw, contributed nothing
        text = render(it)
        if kind == "big":
            text = "B" * it["n"]
        if kind == "int" and hexmode:
            text = format(int(it["text"]) & 0xFFFFFFFF, "x")
        elif kind == "int" and showpos and int(it["text"]) >= 0:
            text = "+" + text
        elif kind == "double" and showpos and not text.startswith("-"):
            text = "+" + text
        if width:
            text = text.rjust(6, "0")
            width = False
        msg += text
    return msg


def abbreviate(line):
    if len(line) <= 400:
        return line
    h = 1469598103934665603
    for ch in line.encode("latin-1"):
        h ^= ch
        h = (h * 1099511628211) & 0xFFFFFFFFFFFFFFFF
    return line[:120] + "...(%d bytes, %d)" % (len(line), h)


def expected_events(p, s, k, th, filter_decision=None, inner_decision=None, audit_decision=None):
    """events of statement k under thresholds th"""
    eff_tag = (s["tag"] or "") if p["has_tag"] else ""
    accepts = filter_eval(p["filter"], s["sev"], th, eff_tag) if filter_decision is None else filter_decision
    enabled = s["sev"] >= p["min"] and accepts
    inner_evs = []
    if s.get("inner"):
        _, inner_evs = expected_events(p, s["inner"]["stmt"], k, th, inner_decision, None, audit_decision)
    evs = []
    chain0 = s["named"] and s.get("bindchain") and s["items"]
    if chain0 and enabled and s["items"][0]["kind"].startswith("call"):
        evs.append(f"C{s['items'][0]['cid']}")  # streamed in the declaration, before the first mark
    if s["named"]:
        evs.append(f"M{k}.0")
        if s.get("inner") and s["inner"]["at"] == 0:
            evs += inner_evs
    for j, it in enumerate(s["items"]):
        if enabled and it["kind"].startswith("call") and not (chain0 and j == 0):
            evs.append(f"C{it['cid']}")
        if s["named"]:
            evs.append(f"M{k}.{j + 1}")
            if s.get("inner") and s["inner"]["at"] == j + 1:
                evs += inner_evs
    if enabled:
        tag = (s["tag"] or "") if p["has_tag"] else "-"
        f = f"F|{s['sev']}|{tag}|{message_of(s['items'])}"
        evs.append(abbreviate(f))
        # the member that keeps an audit trail logs a record of its own before it stores this one
        audit = p.get("audit")
        audit_on = False
        audit_evs = []
        if audit is not None:
            # (a statement that shifted the thresholds is delivered while they are shifted)
            th_now = tuple((t + 3) % 6 for t in th) if s.get("bump") else th
            acc = filter_eval(p["filter"], 4, th_now, "") if audit_decision is None else audit_decision
            audit_on = 4 >= p["min"] and acc
            af = f"F|4|{'' if p['has_tag'] else '-'}|audit"
            audit_evs = [af] + [f"S{q}|4|{af}" for q in range(max(1, p["nsinks"]))]
        for q in range(max(1, p["nsinks"])):
            if audit == q and audit_on:
                evs += audit_evs
            evs.append(abbreviate(f"S{q}|{s['sev']}|{f}"))
    return enabled, evs


def project(prop, lines):
    """what each property compares"""
    out = []
    for l in lines:
        if prop == "C05":
            if l.startswith("C") or l.startswith("M"):
                continue
            out.append(l)
        else:
            if l.startswith("F|"):
                out.append("F")
            elif l.startswith("S") and "|" in l:
                out.append(l.split("|", 1)[0])
            else:
                out.append(l)
    return out


def thresholds(n):
    if n == 0:
        yield ()
        return
    for rest in thresholds(n - 1):
        for t in range(6):
            yield rest + (t,)


def fnv(s):
    h = 1469598103934665603
    for ch in s.encode():
        h ^= ch
        h = (h * 1099511628211) & 0xFFFFFFFFFFFFFFFF
    return h


def stmt_desc(p, s):
    return "%s%s %s items=[%s]" % (SEV[s["sev"]], "(named)" if s["named"] else "",
                                   "tag=%r" % s["tag"] if s["tag"] is not None else "no-tag",
                                   ",".join(i["kind"] for i in s["items"]))


# ------------------------------------------------------------------ running one program

def compile_and_run(p, src_root, workdir, name):
    os.makedirs(workdir, exist_ok=True)
    cpp = os.path.join(workdir, name + ".cpp")
    exe = os.path.join(workdir, name)
    with open(cpp, "w") as f:
        f.write(program_cpp(p))
    cmd = ["g++", "-std=gnu++17", "-O0", "-g0", "-fsanitize=address,undefined",
           "-fno-sanitize-recover=undefined", "-DNITRO_VERIF", f"-DNITRO_LOG_MIN_SEVERITY={SEV[p['min']]}",
           "-I" + os.path.join(src_root, "include"), cpp, "-o", exe]
    c = subprocess.run(cmd, stdout=subprocess.PIPE, stderr=subprocess.STDOUT)
    if c.returncode != 0:
        return None, "does not compile (static_assert on the statement types or a type error):\n" + \
            c.stdout.decode("utf-8", "replace")[-2500:]
    r = subprocess.run([exe], stdout=subprocess.PIPE, stderr=subprocess.PIPE, timeout=600,
                       env=dict(os.environ, ASAN_OPTIONS="detect_leaks=1"))
    try:
        os.remove(exe)
    except OSError:
        pass
    if r.returncode != 0:
        return None, f"program terminated abnormally (exit {r.returncode}):\n" + \
            r.stderr.decode("utf-8", "replace")[-2500:]
    return r.stdout.decode("utf-8", "replace").split("\n"), None


def check_program(p, src_root, workdir, name, stats=None):
    """returns (message or None, evaluations)"""
    lines, err = compile_and_run(p, src_root, workdir, name)
    if err:
        return err, 0
    prop = p["prop"]
    pos = 0
    evaluations = 0
    budget = {"left": p["filter"][1]} if p["filter"][0] == "budget" else None

    def ask(sev):
        """the stateful filter object is asked about a record of that severity"""
        if sev >= 4:
            return True
        if budget["left"] > 0:
            budget["left"] -= 1
            return True
        return False
    for th in thresholds(p["leaves"]):
        head = "T" + "".join(f" {t}" for t in th)
        if pos >= len(lines) or lines[pos] != head:
            return f"trace out of step at thresholds {th}: expected header {head!r}, found " \
                   f"{lines[pos] if pos < len(lines) else '<end>'!r}", evaluations
        pos += 1
        for k, s in enumerate(p["stmts"]):
            if pos >= len(lines) or not lines[pos].startswith(f"#{k} W") or len(lines[pos].split()) != 5:
                return f"trace out of step before statement {k}", evaluations
            real_filter_accepts = lines[pos].split()[1] == "W1"
            real_filter_accepts_inner = lines[pos].split()[2] == "W1"
            real_filter_accepts_audit = lines[pos].split()[4 if s.get("bump") else 3] == "W1"
            pos += 1
            got = []
            while pos < len(lines) and not lines[pos].startswith("#") and not lines[pos].startswith("T ") \
                    and lines[pos] != "T" and lines[pos] != "":
                got.append(lines[pos])
                pos += 1
            # C05 decides "enabled" with the reference model of the filter tree; C10 is stated
            # relative to the decision of the real filter ("a statement rejected by the runtime
            # filter ..."), so a wrong filter is C05's finding, not C10's
            if budget is not None:
                # the filter is asked in this order: by the statement (if it exists at this compile-time
                # minimum), by the statement inside it, then twice by the probes behind the statement
                d_outer = ask(s["sev"]) if s["sev"] >= p["min"] else False
                ist = s["inner"]["stmt"] if s.get("inner") else None
                d_inner = (ask(ist["sev"]) if ist["sev"] >= p["min"] else False) if ist else None
                ask(s["sev"])
                ask(ist["sev"] if ist else s["sev"])
                enabled, want = expected_events(p, s, k, th, d_outer, d_inner, True)
            else:
                enabled, want = expected_events(p, s, k, th,
                                                None if prop == "C05" else real_filter_accepts,
                                                None if prop == "C05" else real_filter_accepts_inner,
                                                None if prop == "C05" else real_filter_accepts_audit)
            evaluations += 1
            if stats is not None:
                ncall = sum(1 for i in s["items"] if i["kind"].startswith("call"))
                if prop == "C05":
                    nontrivial = filter_ops(p["filter"]) >= 1 or p["min"] > 0
                else:
                    nontrivial = (ncall >= 1 and not enabled) or (enabled and ncall >= 2)
                stats["classes"]["enabled" if enabled else
                                 ("disabled:compile-time" if s["sev"] < p["min"] else "disabled:runtime")] += 1
                if s["named"]:
                    stats["classes"]["form:named-object"] += 1
                if s.get("inner"):
                    stats["classes"]["form:statement-inside-open-named-stream"] += 1
                if s.get("tagbuf"):
                    stats["classes"]["tag:storage-reused-while-stream-open"] += 1
                if s.get("unwind"):
                    stats["classes"]["form:completes-during-stack-unwinding"] += 1
                if s.get("bump"):
                    stats["classes"]["thresholds-change-while-stream-open"] += 1
                if s.get("bindchain"):
                    stats["classes"]["form:chain-result-bound-to-auto&&"] += 1
                if any(i["kind"] in ("hex", "dec", "w6") for i in s["items"]):
                    stats["classes"]["items:stream-manipulator"] += 1
                if p.get("audit") is not None and enabled:
                    stats["classes"]["sink:logs-from-inside-sink()"] += 1
                if ncall:
                    stats["classes"]["has-callable"] += 1
                if nontrivial:
                    stats["nontrivial_total"] += 1
                    fp = fnv("%s|%d|%s|%s|%s" % (filter_str(p["filter"]), p["min"], th, stmt_desc(p, s),
                                                 p["nsinks"]))
                    if fp not in stats["fps"]:
                        stats["fps"].add(fp)
                        if len(stats["samples"]) < 5:
                            stats["samples"].append(
                                "min=%s filter=%s thresholds=%s sinks=%d stmt: %s -> %s" %
                                (SEV[p["min"]], filter_str(p["filter"]), list(th), p["nsinks"],
                                 stmt_desc(p, s), "enabled" if enabled else "disabled"))
            if project(prop, got) != project(prop, want):
                return ("statement %d [%s] at compile-time minimum %s, filter %s, thresholds %s, %s sink(s): "
                        "expected events %s but the program produced %s" %
                        (k, stmt_desc(p, s), SEV[p["min"]], filter_str(p["filter"]), list(th),
                         p["nsinks"] or "plain", project(prop, want), project(prop, got))), evaluations
    return None, evaluations


def shrink(p, src_root, workdir):
    """one-at-a-time removal of statements and items while the program still fails"""
    best = p
    budget = 40
    changed = True
    while changed and budget > 0:
        changed = False
        for k in range(len(best["stmts"]) - 1, -1, -1):
            if len(best["stmts"]) <= 1 or budget <= 0:
                break
            cand = json.loads(json.dumps(best))
            del cand["stmts"][k]
            cand["filter"] = tuple_tree(cand["filter"])
            budget -= 1
            msg, _ = check_program(cand, src_root, workdir, "shrink")
            if msg:
                best = cand
                changed = True
    return best


def tuple_tree(t):
    return tuple(tuple_tree(x) if isinstance(x, list) else x for x in t)


def case_text(p, msg):
    q = dict(p)
    return json.dumps({"verdict": "fail", "message": msg, "program": q, "source": program_cpp(p)}, indent=1)


def main():
    ap = argparse.ArgumentParser()
    ap.add_argument("--prop", default="C05")
    ap.add_argument("--n", type=int, default=12)
    ap.add_argument("--stats")
    ap.add_argument("--art")
    ap.add_argument("--seed", type=int, default=1)
    ap.add_argument("--workdir", default="/verif/build/run/logprog")
    ap.add_argument("--src", default="/repo")
    ap.add_argument("--jobs", type=int, default=8)
    ap.add_argument("--replay")
    ap.add_argument("--exclude")
    args = ap.parse_args()

    if args.replay:
        with open(args.replay) as f:
            case = json.load(f)
        p = case["program"]
        p["filter"] = tuple_tree(p["filter"])
        wd = os.path.join("/verif/build/run", "logreplay-%d" % os.getpid())
        msg, _ = check_program(p, args.src, wd, "replay")
        subprocess.run(["rm", "-rf", wd])
        if msg:
            print("REPLAY-FAIL " + msg)
            sys.exit(1)
        print("REPLAY-OK")
        sys.exit(0)

    stats = {"evaluations": 0, "nontrivial_total": 0, "failures": 0, "fps": set(), "samples": [],
             "classes": {"enabled": 0, "disabled:compile-time": 0, "disabled:runtime": 0,
                         "form:named-object": 0, "has-callable": 0, "programs": 0,
                         "form:statement-inside-open-named-stream": 0,
                         "tag:storage-reused-while-stream-open": 0,
                         "form:completes-during-stack-unwinding": 0,
                         "thresholds-change-while-stream-open": 0,
                         "form:chain-result-bound-to-auto&&": 0, "items:stream-manipulator": 0,
                         "sink:logs-from-inside-sink()": 0}}
    wd = os.path.join(args.workdir, "logprog-%s-%d" % (args.prop, args.seed))
    failures = []

    def one(i):
        p = gen_program(args.seed * 100003 + i, args.prop)
        local = {"nontrivial_total": 0, "fps": set(), "samples": [],
                 "classes": {k: 0 for k in stats["classes"]}}
        msg, ev = check_program(p, args.src, wd, f"p{i}", local)
        return p, msg, ev, local

    with ThreadPoolExecutor(max_workers=args.jobs) as ex:
        for p, msg, ev, local in ex.map(one, range(args.n)):
            stats["evaluations"] += ev
            stats["classes"]["programs"] += 1
            stats["classes"]["min:" + SEV[p["min"]]] = stats["classes"].get("min:" + SEV[p["min"]], 0) + 1
            stats["nontrivial_total"] += local["nontrivial_total"]
            stats["fps"] |= local["fps"]
            for s in local["samples"]:
                if len(stats["samples"]) < 5:
                    stats["samples"].append(s)
            for k, v in local["classes"].items():
                stats["classes"][k] += v
            if msg:
                failures.append((p, msg))
    rc = 0
    if failures:
        p, msg = failures[0]
        small = shrink(p, args.src, wd)
        m2, _ = check_program(small, args.src, wd, "final")
        if m2:
            p, msg = small, m2
        stats["failures"] = len(failures)
        if args.art:
            with open(args.art + "fail.case", "w") as f:
                f.write(case_text(p, msg))
        print("FAIL " + msg)
        rc = 1
    subprocess.run(["rm", "-rf", wd])
    if args.stats:
        fps = stats.pop("fps")
        stats["driver"] = "script"
        stats["mode"] = "generated-programs"
        with open(args.stats, "w") as f:
            json.dump(stats, f)
        a = array.array("Q", sorted(fps))
        with open(args.stats + ".fps", "wb") as f:
            a.tofile(f)
    sys.exit(rc)


if __name__ == "__main__":
    main()
