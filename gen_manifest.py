#!/usr/bin/env python3
"""Writes MANIFEST.json from vlib/props.py (single source of truth)."""
import json
import os
import subprocess
import sys

VERIF = os.path.dirname(os.path.abspath(__file__))
sys.path.insert(0, VERIF)
from vlib import props as P  # noqa: E402

ids = [json.loads(l)["id"] for l in open(os.path.join(VERIF, "properties.jsonl"))]

hook_commits = []
hooks_file = os.path.join(VERIF, "hooks_commits.txt")
if os.path.exists(hooks_file):
    hook_commits = [l.split()[0] for l in open(hooks_file) if l.strip() and not l.startswith("#")]

checks = []
for pid in ids:
    if pid not in P.PROPS:
        continue
    p = P.PROPS[pid]
    checks.append({
        "property_id": pid,
        "quick_cmd": f"python3 run_check.py {pid} --tier quick",
        "thorough_cmd": f"python3 run_check.py {pid} --tier thorough",
        "evidence_file": f"/verif/evidence/{pid}.json",
        "replay_cmd_template": f"python3 run_check.py {pid} --replay {{path}}",
        "engine": p.get("engine", "rapidcheck+enum+libfuzzer"),
        "level_claimed": {
            "category": p.get("level", "exploration"),
            "text": p["level_text"],
            "design_ref": p.get("design_ref", ""),
        },
        "level_note": p["level_note"],
        "technique": p["technique"],
    })

na = [{"property_id": pid, "reason": P.NOT_APPLICABLE.get(pid, "check not built yet in this session")}
      for pid in ids if pid not in P.PROPS]

manifest = {
    "version": 1,
    "setup_cmd": "python3 setup.py",
    "hooks": {
        "guard": "NITRO_VERIF",
        "enable": "every harness and nitro source file is compiled by vlib/build.py with -DNITRO_VERIF "
                  "(plus -fsanitize=address,undefined, no -DNDEBUG); no source hook is currently needed",
        "baseline_off_cmd": "sh scripts/baseline_off.sh",
        "source_commits": hook_commits,
        "add_only": True,
    },
    "engines": [
        {"name": "rapidcheck+enum+libfuzzer", "path": "/verif/run_check.py",
         "serves_properties": [c["property_id"] for c in checks],
         "kind_free_text": "property-based testing: one oracle function per property fed by rapidcheck "
                           "generators (shrinking), exhaustive odometer enumeration of small sub-spaces, "
                           "and libFuzzer byte decoding; sanitizers on; replay files bypass the libraries"},
    ],
    "checks": checks,
    "not_applicable": na,
    "notes": "See DESIGN.md. Known findings and fixed defects: known_findings.json.",
}
with open(os.path.join(VERIF, "MANIFEST.json"), "w") as f:
    json.dump(manifest, f, indent=1)
    f.write("\n")
try:
    import jsonschema
    jsonschema.validate(manifest, json.load(open("/root/.vp/MANIFEST.schema.json")))
    print("MANIFEST.json valid,", len(checks), "checks,", len(na), "not applicable")
except ImportError:
    print("MANIFEST.json written (jsonschema not available for validation)")
