#!/usr/bin/env python3
"""Driver for all property checks.

    run_check.py <ID> [--tier quick|thorough] [--replay FILE] [--src ROOT]

Builds the harness of the property from /repo's current working tree (content
addressed cache under /verif/build), fans out the configured jobs
(rapidcheck workers, exhaustive enumerations, libFuzzer campaigns, replays of
committed regression cases, probes of known findings), merges their
statistics, writes /verif/evidence/<ID>.json and exits

    0  the property held on everything explored (KNOWN-FINDING lines possible)
    1  VIOLATION property=<ID> replay=<path>   was printed
    2  infrastructure problem (harness does not build, generator degraded ...)
"""
import argparse
import array
import glob
import hashlib
import json
import os
import shutil
import subprocess
import sys
import time
from concurrent.futures import ThreadPoolExecutor

VERIF = os.path.dirname(os.path.abspath(__file__))
sys.path.insert(0, VERIF)
from vlib import props as P  # noqa: E402
from vlib import build as B  # noqa: E402


def log(*a):
    print(*a, flush=True)


def derive_seed(base, pid, tag):
    h = hashlib.sha256(f"{base}/{pid}/{tag}".encode()).digest()
    v = int.from_bytes(h[:4], "little") & 0x7FFFFFFF
    return v or 1


def load_findings():
    path = os.path.join(VERIF, "known_findings.json")
    if not os.path.exists(path):
        return []
    with open(path) as f:
        return json.load(f).get("findings", [])


class Job:
    def __init__(self, spec, idx, tier, seed, pid, workdir, binaries, exclude):
        self.spec = spec
        self.idx = idx
        self.kind = spec["kind"]  # rc | enum | fuzz | replay | script
        self.tag = f"j{idx}-{self.kind}-{spec.get('mode', '')}" + \
            (("-s" + spec["shard"].replace("/", "of")) if spec.get("shard") else "")
        self.workdir = workdir
        self.stats = os.path.join(workdir, f"{self.tag}.stats.json")
        self.art = os.path.join(workdir, f"{self.tag}-")
        self.seed = derive_seed(seed, pid, self.tag + str(spec.get("worker", 0)))
        self.binaries = binaries
        self.exclude = exclude
        self.rc = None
        self.out = ""
        self.wall = 0.0

    def command(self):
        s = self.spec
        env = dict(os.environ)
        # detect_stack_use_after_return makes exception unwinding ~30x slower; it is switched
        # on only where a property asks for it (C20: lifetimes of temporaries)
        env["ASAN_OPTIONS"] = "detect_leaks=1:abort_on_error=0:allocator_may_return_null=0:" \
                              "handle_abort=0:malloc_context_size=8" + s.get("asan_extra", "")
        env["UBSAN_OPTIONS"] = "print_stacktrace=1:halt_on_error=1"
        env["TSAN_OPTIONS"] = "halt_on_error=1:second_deadlock_stack=1"
        try:
            # dictionary of the tree's own string literals for the generators
            env["VF_LITERALS"] = B.literals_file()
        except Exception:
            pass
        for k, v in s.get("env", {}).items():
            env[k] = v
        binary = self.binaries[s.get("binary", "fuzz" if self.kind == "fuzz" else "main")]
        if self.kind == "rc":
            env["RC_PARAMS"] = "seed=%d max_success=%d max_size=%d" % (
                self.seed, s["n"], s.get("size", 100))
            cmd = [binary, "--mode", s.get("mode", "rc"), "--stats", self.stats, "--art", self.art]
        elif self.kind == "enum":
            cmd = [binary, "--driver", "enum", "--mode", s["mode"], "--stats", self.stats,
                   "--art", self.art]
            if s.get("limit"):
                cmd += ["--limit", str(s["limit"])]
            if s.get("shard"):
                cmd += ["--shard", s["shard"]]
        elif self.kind == "replay":
            cmd = [binary, "--replay", s["path"], "--stats", self.stats, "--art", self.art]
            if s.get("mode"):
                cmd += ["--mode", s["mode"]]
        elif self.kind == "fuzz":
            corpus = os.path.join(self.workdir, f"{self.tag}.corpus")
            os.makedirs(corpus, exist_ok=True)
            for seedfile in s.get("seed_corpus", []):
                for f in glob.glob(os.path.join(VERIF, seedfile)):
                    shutil.copy(f, corpus)
            artdir = os.path.join(self.workdir, f"{self.tag}.fuzzart") + "/"
            os.makedirs(artdir, exist_ok=True)
            env["VF_ART"] = self.art
            env["VF_STATS"] = self.stats
            env["VF_MODE"] = s.get("mode", "fuzz")
            if self.exclude:
                env["VF_EXCLUDE"] = ",".join(sorted(self.exclude))
            cmd = [binary, corpus, f"-seed={self.seed}", f"-runs={s['runs']}",
                   f"-max_len={s.get('max_len', 512)}", f"-artifact_prefix={artdir}",
                   "-print_final_stats=1", "-timeout=60", "-rss_limit_mb=4096",
                   "-detect_leaks=1", "-verbosity=0", "-close_fd_mask=0"]
            if s.get("max_total_time"):
                cmd.append(f"-max_total_time={s['max_total_time']}")
            if s.get("dict"):
                cmd.append("-dict=" + os.path.join(VERIF, s["dict"]))
            self.fuzzart = artdir
        elif self.kind == "script":
            cmd = [sys.executable, os.path.join(VERIF, s["script"])] + \
                  [str(a) for a in s.get("args", [])] + \
                  ["--stats", self.stats, "--art", self.art, "--seed", str(self.seed),
                   "--workdir", self.workdir, "--src", B.SRC_ROOT]
        else:
            raise ValueError(self.kind)
        if self.kind in ("rc", "enum", "replay") and self.exclude:
            cmd += ["--exclude", ",".join(sorted(self.exclude))]
        cmd += [str(a) for a in s.get("extra_args", [])]
        return cmd, env

    def run(self):
        cmd, env = self.command()
        t0 = time.time()
        try:
            p = subprocess.run(cmd, env=env, stdout=subprocess.PIPE, stderr=subprocess.STDOUT,
                               timeout=self.spec.get("timeout", 7200), cwd=self.workdir)
            self.rc = p.returncode
            self.out = p.stdout.decode("utf-8", "replace")
        except subprocess.TimeoutExpired as e:
            self.rc = -999
            self.out = (e.stdout or b"").decode("utf-8", "replace") + "\n[driver] wall timeout\n"
        self.wall = time.time() - t0
        with open(os.path.join(self.workdir, self.tag + ".log"), "w") as f:
            f.write(self.out)
        return self

    # -- results -----------------------------------------------------------
    def stats_files(self):
        if self.kind == "fuzz":
            return sorted(glob.glob(self.stats + ".*[0-9]"))
        return [self.stats] if os.path.exists(self.stats) else []

    def artifacts(self):
        """failing case files produced by this job (text cases the harness can replay)"""
        r = []
        for suffix in ("fail.case", "death.case"):
            r += glob.glob(self.art + "*" + suffix) if self.kind == "fuzz" else \
                ([self.art + suffix] if os.path.exists(self.art + suffix) else [])
        return r


def merge_stats(jobs):
    total = {"evaluations": 0, "nontrivial_total": 0, "failures": 0, "classes": {},
             "samples": [], "per_job": [], "exhaustive": [], "rc_classes": {},
             "rc_evaluations": 0}
    fps = set()
    for j in jobs:
        jev = 0
        for sf in j.stats_files():
            try:
                with open(sf) as f:
                    st = json.load(f)
            except Exception:
                continue
            jev += st.get("evaluations", 0)
            total["evaluations"] += st.get("evaluations", 0)
            total["nontrivial_total"] += st.get("nontrivial_total", 0)
            total["failures"] += st.get("failures", 0)
            for k, v in st.get("classes", {}).items():
                total["classes"][k] = total["classes"].get(k, 0) + v
                if j.kind == "rc":
                    total["rc_classes"][k] = total["rc_classes"].get(k, 0) + v
            if j.kind == "rc":
                total["rc_evaluations"] += st.get("evaluations", 0)
            for s in st.get("samples", []):
                if len(total["samples"]) < 8 and s not in total["samples"]:
                    total["samples"].append(s)
            if st.get("driver") == "enum":
                total["exhaustive"].append({"mode": st.get("mode"),
                                            "cases": st.get("evaluations", 0),
                                            "complete": bool(st.get("exhaustive_done"))})
            for k in ("extra",):
                if k in st:
                    total.setdefault("extra", []).append(st[k])
            fpf = sf + ".fps"
            if os.path.exists(fpf):
                a = array.array("Q")
                with open(fpf, "rb") as f:
                    data = f.read()
                a.frombytes(data[:len(data) // 8 * 8])
                fps.update(a)
            elif "fingerprints" in st:
                fps.update(st["fingerprints"])
        total["per_job"].append({"job": j.tag, "kind": j.kind, "evaluations": jev,
                                 "exit": j.rc, "wall_s": round(j.wall, 2)})
    total["distinct_nontrivial"] = len(fps)
    return total


def add_evaluation_counters(total, prop):
    """comparisons done inside one grid case count as evaluations (they are inputs tried)"""
    for k in prop.get("evaluation_counters", []):
        total["evaluations"] += total["classes"].get(k, 0)


def replay_artifact(binary, path, exclude, times, env_extra=None):
    """re-run a failing case through the replay driver; returns number of failing runs"""
    fails = 0
    script = binary.endswith(".py")
    env = dict(os.environ)
    env["ASAN_OPTIONS"] = "detect_leaks=1:handle_abort=0"
    env["UBSAN_OPTIONS"] = "print_stacktrace=1:halt_on_error=1"
    env.update(env_extra or {})
    last = ""
    for _ in range(times):
        cmd = [binary, "--replay", path]
        if script:
            cmd = [sys.executable, binary, "--replay", path, "--src", B.SRC_ROOT]
        if exclude:
            cmd += ["--exclude", ",".join(sorted(exclude))]
        try:
            p = subprocess.run(cmd, env=env, stdout=subprocess.PIPE, stderr=subprocess.STDOUT,
                               timeout=600)
            out = p.stdout.decode("utf-8", "replace")
            if p.returncode != 0:
                fails += 1
                last = out
        except subprocess.TimeoutExpired:
            fails += 1
            last = "replay timed out"
    return fails, last


def main():
    ap = argparse.ArgumentParser()
    ap.add_argument("pid")
    ap.add_argument("--tier", default=os.environ.get("VERIF_TIER", "quick"))
    ap.add_argument("--replay")
    ap.add_argument("--src", default=os.environ.get("VERIF_SRC_ROOT", "/repo"))
    ap.add_argument("--keep", action="store_true")
    ap.add_argument("--no-evidence", action="store_true")
    ap.add_argument("--jobs", type=int, default=int(os.environ.get("VERIF_JOBS", "16")))
    ap.add_argument("--only", help="run only jobs whose tag contains this text (debugging)")
    args = ap.parse_args()

    pid = args.pid
    tier = args.tier if args.tier in ("quick", "thorough") else "quick"
    seed = int(os.environ.get("VERIF_SEED", "1") or "1")
    t0 = time.time()
    B.SRC_ROOT = os.path.abspath(args.src)
    prop = P.PROPS[pid]

    # ---- build ------------------------------------------------------------
    try:
        binaries = B.build_all(prop["build"])
        if prop.get("replay_script"):
            binaries.setdefault("main", os.path.join(VERIF, prop["replay_script"]))
    except B.BuildError as e:
        log(f"[{pid}] BUILD FAILED: {e}")
        # a harness that fails to compile against the tree may itself be the
        # observation (compile probes); properties opt in explicitly
        sys.exit(2)

    findings = [f for f in load_findings() if pid in f.get("properties", [f.get("property")])]
    open_findings = [f for f in findings if f.get("status") == "open"]
    exclude = set(f["key"] for f in open_findings)

    if args.replay:
        fails, out = replay_artifact(binaries[prop.get("replay_binary", "main")],
                                     os.path.abspath(args.replay), exclude, 1)
        log(out.strip()[-4000:] if fails else "REPLAY-OK")
        if fails:
            log(f"VIOLATION property={pid} replay={os.path.abspath(args.replay)}")
        sys.exit(1 if fails else 0)

    # one work directory per invocation (concurrent runs of the same check must not collide)
    workdir = os.path.join(VERIF, "build", "run", f"{pid}-{tier}-{os.getpid()}")
    shutil.rmtree(workdir, ignore_errors=True)
    os.makedirs(workdir)
    # work directories of failed runs are kept for triage; drop them after six hours
    for d in glob.glob(os.path.join(VERIF, "build", "run", "*")):
        try:
            if time.time() - os.path.getmtime(d) > 6 * 3600:
                shutil.rmtree(d, ignore_errors=True)
        except OSError:
            pass
    artdir = os.path.join(VERIF, "artifacts", pid)
    os.makedirs(artdir, exist_ok=True)

    # ---- jobs -------------------------------------------------------------
    specs = []
    # regression tier: committed replays (former failures, boundary cases)
    for path in sorted(glob.glob(os.path.join(VERIF, "replays", pid, "*.case"))):
        specs.append({"kind": "replay", "path": path,
                      "binary": prop.get("replay_binary", "main")})
    specs += prop["jobs"][tier]
    jobs = [Job(s, i, tier, seed, pid, workdir, binaries, exclude) for i, s in enumerate(specs)]
    if args.only:
        jobs = [j for j in jobs if args.only in j.tag]

    weight = lambda j: j.spec.get("cores", 1)
    # simple scheduler: run jobs with a thread pool bounded by cores
    with ThreadPoolExecutor(max_workers=max(1, args.jobs)) as ex:
        list(ex.map(lambda j: j.run(), jobs))

    # ---- collect ----------------------------------------------------------
    total = merge_stats(jobs)
    add_evaluation_counters(total, prop)
    violations = []
    infra = []
    for j in jobs:
        arts = j.artifacts()
        if j.kind == "fuzz":
            # crash-/leak- artifacts without a case dump (pure sanitizer finding
            # before the dump) are converted by replaying the raw input
            raw = [p for p in glob.glob(j.fuzzart + "*")
                   if os.path.basename(p).startswith(("crash-", "leak-"))]
            if raw and not arts:
                arts = raw
        if j.kind == "replay" and j.rc != 0:
            arts = [j.spec["path"]]
        if j.kind == "script" and j.rc == 1 and not arts:
            infra.append(f"{j.tag}: script reported failure without artifact\n{j.out[-2000:]}")
        if arts:
            for a in arts:
                violations.append((j, a))
        elif j.rc not in (0,) and j.kind != "fuzz":
            infra.append(f"{j.tag}: exit {j.rc} without artifact\n{j.out[-3000:]}")
        elif j.kind == "fuzz" and j.rc != 0:
            # libFuzzer exits non-zero for timeouts/ooms too: load noise
            noise = [os.path.basename(p) for p in glob.glob(j.fuzzart + "*")]
            total.setdefault("fuzz_noise", []).extend(noise)
            if not noise:
                infra.append(f"{j.tag}: fuzzer exit {j.rc}\n{j.out[-3000:]}")

    # ---- known findings: probe saved cases ---------------------------------
    known_lines = []
    for f in open_findings:
        casefile = os.path.join(VERIF, f["case"])
        fails, _ = replay_artifact(binaries[prop.get("replay_binary", "main")], casefile, set(), 1)
        if fails:
            known_lines.append(f"KNOWN-FINDING: property={pid} {f['what']}")
        else:
            log(f"[{pid}] note: open finding {f['key']} no longer reproduces")

    # ---- confirm violations -------------------------------------------------
    confirmed = []
    seen = set()
    # compile probes that failed against this tree (e.g. an API spelling the property
    # promises does not compile): the probe source is the replay file
    if prop.get("probe_violation"):
        for tname, fails in B.PROBE_FAILURES.items():
            for f in fails:
                if f.get("optional"):
                    # an instantiation the harness would like to use but the property does not promise:
                    # that part of the harness is compiled out, nothing is reported
                    log(f"[{pid}] note: optional compile probe failed ({f['what']}); harness part left out")
                    continue
                dest = os.path.join(artdir, f"probe_{f['name']}.cpp")
                with open(dest, "w") as fh:
                    fh.write("// compile probe: " + f["what"] + "\n// g++ -std=gnu++17 -fsyntax-only "
                             "-I<nitro>/include this_file.cpp must succeed\n" + f["code"])
                if dest not in [c[0] for c in confirmed]:
                    confirmed.append((dest, "compile probe failed: " + f["what"] + "\n" + f["output"]))
    for j, a in violations:
        try:
            with open(a, "rb") as fh:
                body = fh.read()
        except OSError:
            continue
        fp = hashlib.sha256(body).hexdigest()[:16]
        if fp in seen:
            continue
        seen.add(fp)
        dest = os.path.join(artdir, f"{fp}.case")
        if os.path.abspath(a) != dest and not a.startswith(os.path.join(VERIF, "replays")):
            shutil.copy(a, dest)
        else:
            dest = a
        binary = binaries[j.spec.get("binary", "fuzz" if j.kind == "fuzz" else
                                     prop.get("replay_binary", "main"))]
        if j.kind == "fuzz" and os.path.basename(a).startswith(("crash-", "leak-")):
            # raw fuzz input: re-run through the fuzz binary itself
            p = subprocess.run([binary, dest], stdout=subprocess.PIPE, stderr=subprocess.STDOUT,
                               env=dict(os.environ, VF_MODE=j.spec.get("mode", "fuzz")))
            nfail = 2 if p.returncode != 0 else 0
            out = p.stdout.decode("utf-8", "replace")
        elif j.kind == "script" and not prop.get("replay_script"):
            nfail, out = 2, j.out
        else:
            rb = binaries[prop.get("replay_binary", "main")] if j.kind == "fuzz" else binary
            nfail, out = replay_artifact(rb, dest, exclude, prop.get("confirm_replays", 2),
                                         j.spec.get("env"))
        need = prop.get("confirm_needed", 1)
        if nfail < need and prop.get("rerun_job_when_unreproduced") and j.kind == "rc":
            # the failure may depend on state the process accumulated over its earlier cases
            # (a counter inside a lock, say): the reproducible unit is then the whole job. It is
            # run again, same seed, same case count; a second failure confirms.
            import copy
            for attempt in range(2):
                j2 = copy.copy(j)
                j2.tag = f"{j.tag}-rerun{attempt}"
                j2.stats = os.path.join(j.workdir, f"{j2.tag}.stats.json")
                j2.art = os.path.join(j.workdir, f"{j2.tag}-")
                j2.run()
                if j2.artifacts() or j2.rc not in (0,):
                    cmd2, env2 = j2.command()
                    with open(dest + ".job.txt", "w") as fh:
                        fh.write("# the case fails only after the cases generated before it in the same process;\n"
                                 "# to reproduce, run the whole job again:\n"
                                 f"RC_PARAMS='{env2.get('RC_PARAMS', '')}' {' '.join(cmd2)}\n")
                    nfail = need
                    out = (f"the single case does not fail on its own, but the whole job (same seed) failed "
                           f"again when repeated (attempt {attempt + 1}); see {os.path.basename(dest)}.job.txt\n") + \
                        j2.out[-3000:]
                    break
        if nfail >= need:
            confirmed.append((dest, out))
        else:
            log(f"[{pid}] note: failure {os.path.basename(dest)} of job {j.tag} did not reproduce")
            total.setdefault("unreproduced", []).append(os.path.basename(dest))
            if not prop.get("tolerate_unreproduced"):
                # deterministic harness: a failure that does not replay is still
                # reported; it was observed on the real code
                confirmed.append((dest, j.out))

    # ---- generator health ----------------------------------------------------
    degraded = []
    # floors are measured on the rapidcheck jobs (the generator whose distribution is designed;
    # the fuzzer's distribution is coverage-driven)
    ev = max(1, total["rc_evaluations"])
    for cls, floor in prop.get("floors", {}).get(tier, prop.get("floors", {}).get("any", {})).items():
        got = total["rc_classes"].get(cls, 0)
        base = total["rc_classes"].get(prop.get("floor_base", {}).get(cls, ""), 0) or ev
        if os.environ.get("VF_FLOOR_REPORT"):
            log(f"[{pid}] floor {cls}: {got}/{base} = {got / base:.4f} vs {floor} (margin x{got / base / floor:.2f})")
        if got / base < floor:
            degraded.append(f"class {cls}: {got}/{base} < floor {floor}")
    for num, den, floor in prop.get("ratio_floors", []):
        n_, d_ = total["classes"].get(num, 0), max(1, total["classes"].get(den, 0))
        if os.environ.get("VF_FLOOR_REPORT"):
            log(f"[{pid}] floor ratio {num}/{den}: {n_ / d_:.4f} vs {floor} (margin x{n_ / d_ / floor:.2f})")
        if n_ / d_ < floor:
            degraded.append(f"ratio {num}/{den} = {n_}/{d_} < floor {floor}")
    for cls, need in prop.get("min_counts", {}).items():
        if os.environ.get("VF_FLOOR_REPORT"):
            log(f"[{pid}] floor count {cls}: {total['classes'].get(cls, 0)} vs {need} (margin x{total['classes'].get(cls, 0) / max(1, need):.2f})")
        if total["classes"].get(cls, 0) < need:
            degraded.append(f"class {cls}: only {total['classes'].get(cls, 0)} cases, at least {need} expected")

    wall = time.time() - t0
    status = "held"
    if confirmed:
        status = "violation"
    elif infra or degraded:
        status = "infrastructure"

    # ---- evidence -------------------------------------------------------------
    if not args.no_evidence:
        cov = {
            "evaluations": total["evaluations"],
            "distinct_nontrivial": total["distinct_nontrivial"],
            "rule": prop["rule"],
            "samples": total["samples"] or ["(no non-trivial case recorded)"],
            "nontrivial_evaluations": total["nontrivial_total"],
            "class_histogram": dict(sorted(total["classes"].items())),
            "exhaustive_subspaces": total["exhaustive"],
            "exhaustive": False,
            "jobs": total["per_job"],
            "excluded_known_finding_classes": sorted(exclude),
            "generator_health": "degraded: " + "; ".join(degraded) if degraded else "ok",
            "sanitizers": prop.get("sanitizers", "address,undefined,leak"),
            "drivers": sorted(set(j.kind for j in jobs)),
            "source_tree": B.SRC_ROOT,
            "source_tree_key": B.tree_key()[:16],
        }
        for k in ("extra", "fuzz_noise", "unreproduced"):
            if k in total:
                cov[k] = total[k]
        evd = {
            "property_id": pid,
            "tier": tier,
            "seed": seed,
            "level": prop.get("level", "exploration"),
            "coverage": cov,
            "assumptions": prop.get("assumptions", []),
            "wall_s": round(wall, 2),
            "violations": len(confirmed),
            "status": status,
            "known_findings_reported": known_lines,
        }
        os.makedirs(os.path.join(VERIF, "evidence"), exist_ok=True)
        tmp = os.path.join(VERIF, "evidence", f".{pid}.json.tmp")
        with open(tmp, "w") as f:
            json.dump(evd, f, indent=1, ensure_ascii=True)
            f.write("\n")
        os.replace(tmp, os.path.join(VERIF, "evidence", f"{pid}.json"))

    # ---- report ---------------------------------------------------------------
    log(f"[{pid}] tier={tier} seed={seed} evaluations={total['evaluations']} "
        f"distinct_nontrivial={total['distinct_nontrivial']} wall={wall:.1f}s status={status}")
    for line in known_lines:
        log(line)
    if confirmed:
        for dest, out in confirmed[:5]:
            tail = "\n".join(out.strip().splitlines()[-25:])
            head = ""
            try:
                with open(dest, errors="replace") as fh:
                    head = "".join(l for l in fh.readlines()[:8] if l.startswith("# "))[:1500]
            except OSError:
                pass
            log(f"[{pid}] failing case {dest}:\n{head}{tail}")
        for dest, _ in confirmed[:5]:
            log(f"VIOLATION property={pid} replay={dest}")
        sys.exit(1)
    if infra or degraded:
        for m in infra:
            log(f"[{pid}] INFRASTRUCTURE: {m}")
        for m in degraded:
            log(f"[{pid}] GENERATOR DEGRADED: {m}")
        sys.exit(2)
    if not args.keep:
        shutil.rmtree(workdir, ignore_errors=True)
    sys.exit(0)


if __name__ == "__main__":
    main()
