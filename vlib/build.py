"""Content-addressed build of harness binaries from the nitro working tree.

Every binary is keyed by the content of *all* files under <src>/include and
<src>/src, the harness sources (everything under /verif/harness and
/verif/fuzz that the target names, plus the common headers) and the flags, so
a stale binary can never be run against an edited tree.
"""
import fcntl
import hashlib
import re
import os
import shutil
import subprocess
from concurrent.futures import ThreadPoolExecutor

VERIF = os.path.dirname(os.path.dirname(os.path.abspath(__file__)))
SRC_ROOT = "/repo"
CACHE = os.path.join(VERIF, "build", "cache")
GUARD = "NITRO_VERIF"

_tree_key = {}


class BuildError(Exception):
    pass


def _hash_files(paths, h):
    for p in sorted(paths):
        h.update(p.encode())
        h.update(b"\0")
        try:
            with open(p, "rb") as f:
                h.update(f.read())
        except OSError:
            h.update(b"<missing>")
        h.update(b"\0")


def _walk(root):
    out = []
    for d, _, files in os.walk(root):
        for f in files:
            out.append(os.path.join(d, f))
    return out


def tree_key():
    if SRC_ROOT not in _tree_key:
        h = hashlib.sha256()
        # relative names so that an identical tree elsewhere shares the cache
        for sub in ("include", "src"):
            root = os.path.join(SRC_ROOT, sub)
            for p in sorted(_walk(root)):
                h.update(os.path.relpath(p, SRC_ROOT).encode() + b"\0")
                with open(p, "rb") as f:
                    h.update(f.read())
                h.update(b"\0")
        _tree_key[SRC_ROOT] = h.hexdigest()
    return _tree_key[SRC_ROOT]


_ESC = {"n": "\n", "t": "\t", "r": "\r", "0": "\0", "\\": "\\", '"': '"', "'": "'", "a": "\a", "b": "\b",
        "f": "\f", "v": "\v", "?": "?"}


def _decode_literal(body):
    out = bytearray()
    i = 0
    while i < len(body):
        ch = body[i]
        if ch != "\\":
            out += ch.encode("latin-1", "replace")
            i += 1
            continue
        i += 1
        if i >= len(body):
            break
        e = body[i]
        if e == "x":
            j = i + 1
            while j < len(body) and j < i + 3 and body[j] in "0123456789abcdefABCDEF":
                j += 1
            if j > i + 1:
                out.append(int(body[i + 1:j], 16) & 0xff)
            i = j
        elif e in "01234567":
            j = i
            while j < len(body) and j < i + 3 and body[j] in "01234567":
                j += 1
            out.append(int(body[i:j], 8) & 0xff)
            i = j
        else:
            out += _ESC.get(e, e).encode("latin-1", "replace")
            i += 1
    return bytes(out)


def literals_file():
    """The string literals of the tree under test (include/, src/), one per line in hex: the values the
    code mentions are the values it may treat specially. Generators draw from them now and then (a
    dictionary derived from the target, as fuzzers do). A pure function of the tree."""
    path = os.path.join(CACHE, "literals-" + tree_key()[:24] + ".txt")
    if os.path.exists(path):
        return path
    lits = []
    seen = set()
    rx = re.compile(r'"((?:[^"\\\n]|\\.)*)"')
    for sub in ("include", "src"):
        for p in sorted(_walk(os.path.join(SRC_ROOT, sub))):
            try:
                text = open(p, encoding="latin-1").read()
            except OSError:
                continue
            for line in text.split("\n"):
                st = line.lstrip()
                if st.startswith("#include") or st.startswith("*") or st.startswith("//"):
                    continue
                for m in rx.finditer(line):
                    b = _decode_literal(m.group(1))
                    if 1 <= len(b) <= 64 and b not in seen:
                        seen.add(b)
                        lits.append(b)
    lits = lits[:600]
    os.makedirs(CACHE, exist_ok=True)
    tmp = path + ".%d.tmp" % os.getpid()
    with open(tmp, "w") as f:
        for b in lits:
            f.write(b.hex() + "\n")
    os.replace(tmp, path)
    return path


def harness_key():
    h = hashlib.sha256()
    _hash_files(_walk(os.path.join(VERIF, "harness", "common")), h)
    return h.hexdigest()


def _ccache():
    return ["ccache"] if shutil.which("ccache") and not os.environ.get("VERIF_NO_CCACHE") else []


SAN = {
    "asan": ["-fsanitize=address,undefined", "-fno-sanitize-recover=undefined"],
    "tsan": ["-fsanitize=thread"],
    "ubsan": ["-fsanitize=undefined", "-fno-sanitize-recover=undefined"],
    "none": [],
}


def base_flags(target):
    opt = target.get("opt", "-O1")
    flags = ["-std=gnu++17", "-g1", opt, "-fno-omit-frame-pointer", "-D_GLIBCXX_ASSERTIONS",
             "-D" + GUARD, "-I" + os.path.join(SRC_ROOT, "include"),
             "-I" + os.path.join(VERIF, "harness"), "-pthread"]
    flags += SAN[target.get("san", "asan")]
    if target.get("san", "asan") == "asan":
        flags.append("-DVF_ASAN")
    flags += target.get("flags", [])
    return flags


def _run(cmd, what):
    p = subprocess.run(cmd, stdout=subprocess.PIPE, stderr=subprocess.STDOUT)
    if p.returncode != 0:
        raise BuildError(f"{what}\n$ {' '.join(cmd)}\n{p.stdout.decode('utf-8', 'replace')[-6000:]}")
    return p.stdout.decode("utf-8", "replace")


def _locked(path):
    os.makedirs(os.path.dirname(path), exist_ok=True)
    f = open(path + ".lock", "w")
    fcntl.flock(f, fcntl.LOCK_EX)
    return f


NITRO_SRCS = {
    "options": ["src/options/parser.cpp", "src/options/group.cpp", "src/options/option.cpp",
                "src/options/toggle.cpp", "src/options/multi_option.cpp", "src/env/get.cpp"],
    "env": ["src/env/get.cpp"],
}


def build_object(rel_src, target):
    """compile one nitro source file with the target's flags; returns the .o path"""
    compiler = target.get("compiler", "g++")
    flags = base_flags(target)
    if target.get("fuzz"):
        flags = [f for f in flags] + ["-fsanitize=fuzzer-no-link"]
    h = hashlib.sha256()
    h.update(tree_key().encode())
    h.update(rel_src.encode())
    h.update(" ".join([compiler] + [f for f in flags if not f.startswith("-I")]).encode())
    key = h.hexdigest()[:24]
    out = os.path.join(CACHE, "obj", key + ".o")
    if os.path.exists(out):
        return out
    lock = _locked(out)
    try:
        if os.path.exists(out):
            return out
        tmp = out + ".tmp%d" % os.getpid()
        _run(_ccache() + [compiler] + flags + ["-c", os.path.join(SRC_ROOT, rel_src), "-o", tmp],
             f"compiling {rel_src}")
        os.replace(tmp, out)
    finally:
        lock.close()
    return out


PROBE_FAILURES = {}


def run_probes(target):
    """compile probes: tiny TUs that must compile against the tree. A failing probe is
    recorded (the driver reports it) and its define is passed to the harness so that the
    harness itself still builds."""
    failed = []
    for pr in target.get("probes", []):
        h = hashlib.sha256()
        h.update(tree_key().encode())
        h.update(pr["code"].encode())
        key = h.hexdigest()[:24]
        res = os.path.join(CACHE, "probe", key + ".result")
        src = os.path.join(CACHE, "probe", key + ".cpp")
        os.makedirs(os.path.dirname(res), exist_ok=True)
        if not os.path.exists(res):
            with open(src, "w") as f:
                f.write(pr["code"])
            p = subprocess.run(["g++", "-std=gnu++17", "-fsyntax-only",
                                "-I" + os.path.join(SRC_ROOT, "include"), src],
                               stdout=subprocess.PIPE, stderr=subprocess.STDOUT)
            with open(res + ".tmp", "w") as f:
                f.write("%d\n" % p.returncode)
                f.write(p.stdout.decode("utf-8", "replace")[-3000:])
            os.replace(res + ".tmp", res)
        with open(res) as f:
            lines = f.read().split("\n", 1)
        if lines[0].strip() != "0":
            failed.append({"name": pr["name"], "code": pr["code"], "define": pr.get("define"),
                           "what": pr.get("what", pr["name"]), "optional": bool(pr.get("optional")),
                           "output": lines[1] if len(lines) > 1 else ""})
    return failed


def build_target(target):
    compiler = target.get("compiler", "g++")
    failed_probes = run_probes(target)
    if failed_probes:
        PROBE_FAILURES[target["name"]] = failed_probes
        target = dict(target)
        target["flags"] = list(target.get("flags", [])) + \
            ["-D" + f["define"] for f in failed_probes if f.get("define")]
    flags = base_flags(target)
    srcs = [os.path.join(VERIF, s) for s in target["src"]]
    extra_deps = [os.path.join(VERIF, s) for s in target.get("deps", [])]
    h = hashlib.sha256()
    h.update(tree_key().encode())
    h.update(harness_key().encode())
    _hash_files(srcs + extra_deps, h)
    h.update(" ".join([compiler] + [f for f in flags if not f.startswith("-I")] +
                      target.get("libs", []) + target.get("nitro", []) +
                      [str(target.get("fuzz", False))]).encode())
    for aux in target.get("aux", []):
        _hash_files([os.path.join(VERIF, aux["src"])], h)
        h.update(aux["out"].encode())
    key = h.hexdigest()[:24]
    out = os.path.join(CACHE, "bin", key, target["name"])
    if os.path.exists(out):
        try:
            os.utime(os.path.dirname(out))  # recently used
        except OSError:
            pass
        return out
    lock = _locked(out)
    try:
        if os.path.exists(out):
            return out
        objs = []
        for lib in target.get("nitro", []):
            for rel in NITRO_SRCS[lib]:
                o = build_object(rel, target)
                if o not in objs:
                    objs.append(o)
        link_flags = list(flags)
        if target.get("fuzz"):
            link_flags += ["-fsanitize=fuzzer", "-DVF_FUZZ"]
        tmp = out + ".tmp%d" % os.getpid()
        cmd = _ccache() + [compiler] + link_flags + srcs + objs + ["-o", tmp] + target.get("libs", [])
        if target.get("fuzz"):
            # ccache cannot cache compile+link in one step; call the compiler directly
            cmd = cmd[len(_ccache()):]
        else:
            cmd = cmd[len(_ccache()):]
        # auxiliary artefacts next to the binary (e.g. tiny shared libraries to dlopen)
        for aux in target.get("aux", []):
            _run(["gcc", "-shared", "-fPIC", "-O1", "-o", os.path.join(os.path.dirname(out), aux["out"]),
                  os.path.join(VERIF, aux["src"])], f"building {aux['out']}")
        _run(cmd, f"building {target['name']}")
        os.replace(tmp, out)
    finally:
        lock.close()
    return out


def prune_cache(keep=160):
    """binaries are keyed by tree content: every edited tree (mutation work) leaves a set behind.
    Keep the most recently used ones."""
    root = os.path.join(CACHE, "bin")
    try:
        dirs = [os.path.join(root, d) for d in os.listdir(root)]
    except OSError:
        return
    if len(dirs) <= keep + 40:
        return
    dirs.sort(key=lambda d: os.path.getmtime(d), reverse=True)
    for d in dirs[keep:]:
        shutil.rmtree(d, ignore_errors=True)


def build_all(targets):
    """targets: list of target dicts -> {name: path}"""
    prune_cache()
    for t in targets:
        if t.get("prebuild"):
            t["prebuild"](t)
    with ThreadPoolExecutor(max_workers=8) as ex:
        paths = list(ex.map(build_target, targets))
    return {t["name"]: p for t, p in zip(targets, paths)}
